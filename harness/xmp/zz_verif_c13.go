package xmp

import "time"

// C13 - XMP properties are extracted exactly, in attribute or element form alike.
// Packets have a concrete token structure; property values are solver variables over the XML character-data alphabet.

const zzHead = `<x:xmpmeta xmlns:x="adobe:ns:meta/"><rdf:RDF xmlns:rdf="http://www.w3.org/1999/02/22-rdf-syntax-ns#">`
const zzTail = `</rdf:RDF></x:xmpmeta>`

// zzValOK[q][c]: c may occur in a value delimited by quote q (q = 0: element content): printable ASCII without markup
// characters and without the delimiting quote itself (the other quote character is legal inside the value).
var zzValOK = func() (t [3][256]bool) {
	for q := 0; q < 3; q++ {
		for c := 0x21; c < 0x7f; c++ {
			ok := c != '<' && c != '>' && c != '&' && c != '='
			if q == 1 && c == '"' {
				ok = false
			}
			if q == 2 && c == '\'' {
				ok = false
			}
			t[q][c] = ok
		}
	}
	return
}()

var zzQuoteClass = 0

// zzVal: n arbitrary bytes of the character-data alphabet of the current serialisation (see zzValOK).
func zzVal(name string, n int) []byte {
	v := zzBytes(name, n)
	for _, c := range v {
		zzAssume(zzValOK[zzQuoteClass][c])
	}
	return v
}

func zzDig(name string, n int) []byte {
	v := zzBytes(name, n)
	for _, c := range v {
		zzAssume(c >= '0' && c <= '9')
	}
	return v
}

func zzDec(d []byte) uint64 {
	var u uint64
	for _, c := range d {
		u = u*10 + uint64(c-'0')
	}
	return u
}

func zzStrEq(s string, b []byte) bool {
	if len(s) != len(b) {
		return false
	}
	eq := true
	for i := range b {
		eq = eq && s[i] == b[i]
	}
	return eq
}

type zzProps struct{ mk, md, tool, label, w, o, rating []byte }

func zzSymProps(n int) zzProps {
	return zzProps{mk: zzVal("mk", n), md: zzVal("md", n), tool: zzVal("tool", n), label: zzVal("label", n), w: zzDig("w", 3), o: zzDig("o", 1), rating: zzDig("rating", 1)}
}

func zzAttrPacket(p zzProps, q byte, junk []byte) []byte {
	b := append([]byte{}, junk...)
	b = append(b, zzHead...)
	b = append(b, `<rdf:Description rdf:about="" xmlns:tiff="http://ns.adobe.com/tiff/1.0/"`...)
	at := func(name string, v []byte) {
		b = append(b, ' ')
		b = append(b, name...)
		b = append(b, '=', q)
		b = append(b, v...)
		b = append(b, q)
	}
	at("tiff:Make", p.mk)
	at("zz:Foreign", []byte("x1"))
	at("tiff:Model", p.md)
	at("tiff:ImageWidth", p.w)
	at("tiff:Orientation", p.o)
	at("xmp:CreatorTool", p.tool)
	at("xmp:Label", p.label)
	at("xmp:Rating", p.rating)
	b = append(b, "/>"...)
	b = append(b, zzTail...)
	return b
}

func zzElemPacket(p zzProps, junk []byte) []byte {
	b := append([]byte{}, junk...)
	b = append(b, zzHead...)
	b = append(b, `<rdf:Description rdf:about="">`...)
	el := func(name string, v []byte) {
		b = append(b, '<')
		b = append(b, name...)
		b = append(b, '>')
		b = append(b, v...)
		b = append(b, "</"...)
		b = append(b, name...)
		b = append(b, '>')
	}
	el("tiff:Make", p.mk)
	el("zz:Foreign", []byte("x1"))
	el("tiff:Model", p.md)
	el("tiff:ImageWidth", p.w)
	el("tiff:Orientation", p.o)
	el("xmp:CreatorTool", p.tool)
	el("xmp:Label", p.label)
	el("xmp:Rating", p.rating)
	b = append(b, `</rdf:Description>`...)
	b = append(b, zzTail...)
	return b
}

func zzCheck(x XMP, err error, p zzProps, form string) {
	zzAssert(err == nil, "a well-formed packet parses without error ("+form+")")
	zzAssert(zzStrEq(x.Tiff.Make, p.mk) && zzStrEq(x.Tiff.Model, p.md), "tiff:Make / tiff:Model are the written values ("+form+")")
	zzAssert(uint64(x.Tiff.ImageWidth) == zzDec(p.w) && uint64(x.Tiff.Orientation) == zzDec(p.o), "tiff:ImageWidth / tiff:Orientation are the written decimal values ("+form+")")
	zzAssert(zzStrEq(x.Basic.CreatorTool, p.tool) && zzStrEq(x.Basic.Label, p.label), "xmp:CreatorTool / xmp:Label are the written values ("+form+")")
	zzAssert(uint64(x.Basic.Rating) == zzDec(p.rating), "xmp:Rating is the written decimal value ("+form+")")
}

// attribute form, both quote characters, value lengths 1, 4, 9 (part), leading junk before the root element
func zzC13_attr_N() int { return 6 }
func zzC13_attr() {
	n := []int{1, 4, 9}[zzPart()/2]
	q := []byte{'"', '\''}[zzPart()%2]
	zzQuoteClass = 1 + zzPart()%2
	p := zzSymProps(n)
	junk := zzBytes("junk", 3)
	for _, c := range junk {
		zzAssume(c != '<')
	}
	x, err := ParseXmp(zzReaderOf(zzAttrPacket(p, q, junk)))
	zzCheck(x, err, p, "attribute")
	zzReached("end")
}

func zzC13_elem_N() int { return 3 }
func zzC13_elem() {
	n := []int{1, 4, 6}[zzPart()]
	p := zzSymProps(n)
	x, err := ParseXmp(zzReaderOf(zzElemPacket(p, nil)))
	zzCheck(x, err, p, "element")
	zzReached("end")
}

// attribute form and element form of the same record give the same result
func zzC13_same() {
	zzQuoteClass = 1
	p := zzSymProps(3)
	a, ea := ParseXmp(zzReaderOf(zzAttrPacket(p, '"', nil)))
	e, ee := ParseXmp(zzReaderOf(zzElemPacket(p, nil)))
	zzAssert((ea == nil) == (ee == nil), "attribute and element serialisations parse alike (error)")
	zzAssert(a.Tiff.Make == e.Tiff.Make && a.Tiff.Model == e.Tiff.Model && a.Tiff.ImageWidth == e.Tiff.ImageWidth && a.Tiff.Orientation == e.Tiff.Orientation &&
		a.Basic.CreatorTool == e.Basic.CreatorTool && a.Basic.Label == e.Basic.Label && a.Basic.Rating == e.Basic.Rating, "attribute and element serialisations give the same fields")
	zzReached("end")
}

// array properties report their items in document order
func zzC13_seq() {
	a, b2, c := zzVal("a", 2), zzVal("b", 3), zzVal("c", 1)
	b := []byte(zzHead + `<rdf:Description rdf:about=""><dc:creator><rdf:Seq><rdf:li>`)
	b = append(b, a...)
	b = append(b, `</rdf:li><rdf:li>`...)
	b = append(b, b2...)
	b = append(b, `</rdf:li><rdf:li>`...)
	b = append(b, c...)
	b = append(b, `</rdf:li></rdf:Seq></dc:creator></rdf:Description>`+zzTail...)
	x, err := ParseXmp(zzReaderOf(b))
	zzAssert(err == nil, "a well-formed packet with an rdf:Seq parses without error")
	zzAssert(len(x.DC.Creator) == 3 && zzStrEq(x.DC.Creator[0], a) && zzStrEq(x.DC.Creator[1], b2) && zzStrEq(x.DC.Creator[2], c), "dc:creator items are reported in document order")
	zzReached("end")
}

// value lengths that straddle the reader's look-ahead steps (attribute value window 256, +512, +512; tag header window
// 128 steps). The long value has arbitrary first and last two bytes and a concrete filler in between; it is serialised
// as an attribute followed by another attribute (layout 0), as the last attribute before "/>" (layout 1), before ">"
// (layout 2) or as an element (layout 3).
var zzLongLens = []int{60, 120, 124, 125, 126, 127, 128, 129, 130, 250, 251, 252, 253, 254, 255, 256, 257, 258, 380, 508, 509, 510, 511, 512, 513, 514, 640,
	762, 763, 764, 765, 766, 767, 768, 769, 770, 900, 1019, 1020, 1021, 1022, 1023, 1024}

func zzLongVal(n int) []byte {
	v := make([]byte, n)
	for i := range v {
		v[i] = 'a' + byte(i%23)
	}
	h := zzVal("h", 2)
	t := zzVal("t", 2)
	v[0], v[1], v[n-2], v[n-1] = h[0], h[1], t[0], t[1]
	return v
}

func zzC13_long_N() int { return 172 } // 4 * len(zzLongLens)
func zzC13_long() {
	n := zzLongLens[zzPart()/4]
	layout := zzPart() % 4
	zzQuoteClass = 1
	if layout == 3 {
		zzQuoteClass = 0
	}
	v := zzLongVal(n)
	md := zzVal("md", 2)
	b := []byte(zzHead)
	switch layout {
	case 0:
		b = append(b, `<rdf:Description rdf:about="" tiff:Make="`...)
		b = append(b, v...)
		b = append(b, `" tiff:Model="`...)
		b = append(b, md...)
		b = append(b, `"/>`...)
	case 1:
		b = append(b, `<rdf:Description rdf:about="" tiff:Model="`...)
		b = append(b, md...)
		b = append(b, `" tiff:Make="`...)
		b = append(b, v...)
		b = append(b, `"/>`...)
	case 2:
		b = append(b, `<rdf:Description rdf:about="" tiff:Model="`...)
		b = append(b, md...)
		b = append(b, `" tiff:Make="`...)
		b = append(b, v...)
		b = append(b, `"></rdf:Description>`...)
	default:
		b = append(b, `<rdf:Description rdf:about=""><tiff:Make>`...)
		b = append(b, v...)
		b = append(b, `</tiff:Make><tiff:Model>`...)
		b = append(b, md...)
		b = append(b, `</tiff:Model></rdf:Description>`...)
	}
	b = append(b, zzTail...)
	x, err := ParseXmp(zzReaderOf(b))
	zzAssert(err == nil, "a well-formed packet with a long value parses without error")
	zzAssert(zzStrEq(x.Tiff.Make, v), "a long tiff:Make value is reported exactly")
	zzAssert(zzStrEq(x.Tiff.Model, md), "the property next to a long value is reported exactly")
	zzReached("end")
}

// white space between tokens: every white-space slot holds n arbitrary characters of XML's S production
// (blank, tab, CR, LF); slots that XML lets be empty are empty in the even partitions.
var zzIsWS = func() (t [256]bool) {
	t[' '], t['\n'], t['\t'], t['\r'] = true, true, true, true
	return
}()

func zzWS(name string, n int) []byte {
	v := zzBytes(name, n)
	for _, c := range v {
		zzAssume(zzIsWS[c])
	}
	return v
}

func zzCat(parts ...interface{}) []byte {
	var b []byte
	for _, p := range parts {
		switch x := p.(type) {
		case string:
			b = append(b, x...)
		case []byte:
			b = append(b, x...)
		}
	}
	return b
}

func zzC13_ws_N() int { return 8 }
func zzC13_ws() {
	layout, opt := zzPart()/2, zzPart()%2 // opt: number of characters in the optional slots
	zzQuoteClass = 1
	if layout == 3 {
		zzQuoteClass = 0
	}
	mk, md := zzVal("mk", 2), zzVal("md", 2)
	var b []byte
	switch layout {
	case 0: // attributes, white space around '=' and before "/>"
		b = zzCat(zzHead, `<rdf:Description rdf:about=""`, zzWS("w1", 1+opt), `tiff:Make`, zzWS("w2", opt), `=`, zzWS("w3", opt), `"`, mk, `"`, zzWS("w4", 1+opt),
			`tiff:Model="`, md, `"`, zzWS("w5", opt), `/>`, zzTail)
	case 1: // attributes, white space before ">" and before the end tag
		b = zzCat(zzHead, `<rdf:Description`, zzWS("w1", 1+opt), `rdf:about=""`, zzWS("w2", 1), `tiff:Make="`, mk, `"`, zzWS("w4", 1+opt), `tiff:Model="`, md, `"`, zzWS("w5", opt),
			`>`, zzWS("w6", opt), `</rdf:Description>`, zzTail)
	case 2: // white space between the structural tags
		b = zzCat(zzWS("w0", opt), `<x:xmpmeta xmlns:x="adobe:ns:meta/">`, zzWS("w1", opt), `<rdf:RDF xmlns:rdf="http://www.w3.org/1999/02/22-rdf-syntax-ns#">`, zzWS("w2", opt),
			`<rdf:Description rdf:about="" tiff:Make="`, mk, `" tiff:Model="`, md, `"/>`, zzWS("w3", opt), `</rdf:RDF>`, zzWS("w4", opt), `</x:xmpmeta>`)
	default: // elements
		b = zzCat(zzHead, `<rdf:Description rdf:about="">`, zzWS("w1", opt), `<tiff:Make>`, mk, `</tiff:Make>`, zzWS("w2", 1+opt), `<tiff:Model>`, md, `</tiff:Model>`, zzWS("w3", opt),
			`</rdf:Description>`, zzWS("w4", opt), zzTail)
	}
	x, err := ParseXmp(zzReaderOf(b))
	zzAssert(err == nil, "a well-formed packet parses without error whatever white space separates its tokens")
	zzAssert(zzStrEq(x.Tiff.Make, mk) && zzStrEq(x.Tiff.Model, md), "values are reported exactly whatever white space separates the tokens")
	zzReached("end")
}

// long runs of (concrete) white space between tokens, lengths straddling the 128-byte header look-ahead
var zzRunLens = []int{100, 110, 111, 112, 116, 117, 118, 119, 120, 125, 126, 127, 128, 129, 130, 200, 239, 240, 254, 255, 256, 257, 300, 383, 384, 500, 511, 512}

func zzC13_space_N() int { return 84 } // 3 * len(zzRunLens)
func zzC13_space() {
	n := zzRunLens[zzPart()/3]
	w := make([]byte, n)
	for i := range w {
		w[i] = " \n"[i%7/6]
	}
	zzQuoteClass = 1
	if zzPart()%3 == 1 {
		zzQuoteClass = 0
	}
	mk, md := zzVal("mk", 2), zzVal("md", 2)
	var b []byte
	switch zzPart() % 3 {
	case 0:
		b = zzCat(zzHead, `<rdf:Description rdf:about=""`, w, `tiff:Make="`, mk, `"`, w, `tiff:Model="`, md, `"/>`, zzTail)
	case 1:
		b = zzCat(zzHead, `<rdf:Description rdf:about="">`, w, `<tiff:Make>`, mk, `</tiff:Make>`, w, `<tiff:Model>`, md, `</tiff:Model>`, w, `</rdf:Description>`, zzTail)
	default:
		b = zzCat(w, `<x:xmpmeta xmlns:x="adobe:ns:meta/">`, w, `<rdf:RDF xmlns:rdf="http://www.w3.org/1999/02/22-rdf-syntax-ns#">`, w,
			`<rdf:Description rdf:about="" tiff:Make="`, mk, `" tiff:Model="`, md, `"/>`, w, zzTail)
	}
	x, err := ParseXmp(zzReaderOf(b))
	zzAssert(err == nil, "a well-formed packet parses without error whatever the length of the white space between its tokens")
	zzAssert(zzStrEq(x.Tiff.Make, mk) && zzStrEq(x.Tiff.Model, md), "values are reported exactly whatever the length of the white space between the tokens")
	zzReached("end")
}

// bytes before the root element are skipped: long junk without any '<' (longer than the reader's 1538-byte window) or
// with stray '<' characters in it; the first and last junk bytes are arbitrary
func zzC13_junk_N() int { return 8 }
func zzC13_junk() {
	n := []int{100, 1537, 1538, 1539, 3076, 3300, 1600, 3100}[zzPart()]
	j := make([]byte, n)
	for i := range j {
		j[i] = "xy \n"[i%4]
		if zzPart() >= 6 && i%700 == 699 {
			j[i] = '<'
		}
	}
	e := zzBytes("j", 2)
	zzAssume(e[0] != '<' && e[1] != '<')
	j[0], j[n-1] = e[0], e[1]
	zzQuoteClass = 1
	mk, md := zzVal("mk", 2), zzVal("md", 2)
	b := zzCat(j, zzHead, `<rdf:Description rdf:about="" tiff:Make="`, mk, `"><tiff:Model>`, md, `</tiff:Model></rdf:Description>`, zzTail)
	x, err := ParseXmp(zzReaderOf(b))
	zzAssert(err == nil, "bytes before the root element are skipped whatever their number")
	zzAssert(zzStrEq(x.Tiff.Make, mk) && zzStrEq(x.Tiff.Model, md), "values after long leading junk are reported exactly")
	zzReached("end")
}

// the other supported simple properties: string-valued ones are reported byte for byte, unsigned ones as the decimal
// value (below the type's maximum), each as an attribute and as an element, next to an unknown property
type zzPropS struct {
	name string
	get  func(x *XMP) string
}

var zzStrProps = []zzPropS{
	{"aux:SerialNumber", func(x *XMP) string { return x.Aux.SerialNumber }},
	{"aux:LensInfo", func(x *XMP) string { return x.Aux.LensInfo }},
	{"aux:Lens", func(x *XMP) string { return x.Aux.Lens }},
	{"aux:LensSerialNumber", func(x *XMP) string { return x.Aux.LensSerialNumber }},
	{"xmpMM:PreservedFileName", func(x *XMP) string { return x.MM.PreservedFileName }},
	{"xapMM:PreservedFileName", func(x *XMP) string { return x.MM.PreservedFileName }},
	{"crs:RawFileName", func(x *XMP) string { return x.CRS.RawFileName }},
	{"xap:CreatorTool", func(x *XMP) string { return x.Basic.CreatorTool }},
	{"xap:Label", func(x *XMP) string { return x.Basic.Label }},
	{"tiff:Make", func(x *XMP) string { return x.Tiff.Make }},
}

type zzPropU struct {
	name string
	max  uint64 // values below max are reported, others give 0
	get  func(x *XMP) uint64
}

var zzUintProps = []zzPropU{
	{"tiff:ImageLength", 65535, func(x *XMP) uint64 { return uint64(x.Tiff.ImageLength) }},
	{"exif:PixelXDimension", 1 << 32, func(x *XMP) uint64 { return uint64(x.Exif.PixelXDimension) }},
	{"exif:PixelYDimension", 1 << 32, func(x *XMP) uint64 { return uint64(x.Exif.PixelYDimension) }},
	{"exif:ISOSpeedRatings", 1 << 32, func(x *XMP) uint64 { return uint64(x.Exif.ISOSpeedRatings) }},
	{"exif:ExposureProgram", 10, func(x *XMP) uint64 { return uint64(x.Exif.ExposureProgram) }},
	{"exif:ExposureMode", 3, func(x *XMP) uint64 { return uint64(x.Exif.ExposureMode) }},
	{"exif:MeteringMode", 7, func(x *XMP) uint64 { return uint64(x.Exif.MeteringMode) }},
	{"aux:LensID", 1 << 32, func(x *XMP) uint64 { return uint64(x.Aux.LensID) }},
	{"aux:ImageNumber", 65535, func(x *XMP) uint64 { return uint64(x.Aux.ImageNumber) }},
	{"xap:Rating", 128, func(x *XMP) uint64 { return uint64(x.Basic.Rating) }},
}

func zzOneProp(name string, v []byte, form int) []byte {
	if form == 0 {
		return zzCat(zzHead, `<rdf:Description rdf:about="" zz:Foreign="x1" `, name, `="`, v, `" tiff:Model="md"/>`, zzTail)
	}
	return zzCat(zzHead, `<rdf:Description rdf:about=""><zz:Foreign>x1</zz:Foreign><`, name, `>`, v, `</`, name, `><tiff:Model>md</tiff:Model></rdf:Description>`, zzTail)
}

func zzC13_strprops_N() int { return 20 }
func zzC13_strprops() {
	p, form := zzStrProps[zzPart()/2], zzPart()%2
	zzQuoteClass = 1 - form
	v := zzVal("v", 5)
	x, err := ParseXmp(zzReaderOf(zzOneProp(p.name, v, form)))
	zzAssert(err == nil, "a well-formed packet parses without error")
	zzAssert(zzStrEq(p.get(&x), v), "a string-valued property is reported byte for byte")
	zzAssert(x.Tiff.Model == "md", "the property after it is reported too")
	zzReached("end")
}

func zzC13_uintprops_N() int { return 20 }
func zzC13_uintprops() {
	p, form := zzUintProps[zzPart()/2], zzPart()%2
	d := zzDig("d", 3)
	x, err := ParseXmp(zzReaderOf(zzOneProp(p.name, d, form)))
	zzAssert(err == nil, "a well-formed packet parses without error")
	want := zzDec(d)
	if want < p.max {
		zzAssert(p.get(&x) == want, "an unsigned property is reported with its decimal value")
	}
	zzAssert(x.Tiff.Model == "md", "the property after it is reported too")
	zzReached("end")
}

// array items that carry an xml:lang attribute (the usual form of dc:description, dc:title and dc:rights): the attribute
// is not an item; dc:title collects the language tags separately
func zzC13_lang() {
	zzQuoteClass = 1
	l1, l2 := zzVal("l1", 2), zzVal("l2", 2)
	a, b2, c, d, e := zzVal("a", 2), zzVal("b", 2), zzVal("c", 2), zzVal("d", 2), zzVal("e", 2)
	zzQuoteClass = 0
	pk := zzCat(zzHead, `<rdf:Description rdf:about="">`,
		`<dc:description><rdf:Alt><rdf:li xml:lang="`, l1, `">`, a, `</rdf:li></rdf:Alt></dc:description>`,
		`<dc:creator><rdf:Seq><rdf:li>`, b2, `</rdf:li><rdf:li xml:lang="`, l2, `">`, c, `</rdf:li></rdf:Seq></dc:creator>`,
		`<dc:subject><rdf:Bag><rdf:li xml:lang="`, l1, `">`, d, `</rdf:li></rdf:Bag></dc:subject>`,
		`<dc:title><rdf:Alt><rdf:li xml:lang="`, l2, `">`, e, `</rdf:li></rdf:Alt></dc:title>`,
		`</rdf:Description>`, zzTail)
	x, err := ParseXmp(zzReaderOf(pk))
	zzAssert(err == nil, "a well-formed packet with language-tagged items parses without error")
	zzAssert(len(x.DC.Description) == 1 && zzStrEq(x.DC.Description[0], a), "dc:description has the one item, not its xml:lang")
	zzAssert(len(x.DC.Creator) == 2 && zzStrEq(x.DC.Creator[0], b2) && zzStrEq(x.DC.Creator[1], c), "dc:creator has the two items in document order")
	zzAssert(len(x.DC.Subject) == 1 && zzStrEq(x.DC.Subject[0], d), "dc:subject has the one item")
	zzAssert(len(x.DC.Title) == 1 && zzStrEq(x.DC.Title[0], e) && len(x.DC.TitleLang) == 1 && zzStrEq(x.DC.TitleLang[0], l2), "dc:title has the item, its language apart")
	zzReached("end")
}

// boundary values of the numeric properties: the maximum of the type is a value like any other; xmp:Rating is signed
// (-1 = rejected)
func zzC13_numedge_N() int { return 2 }
func zzC13_numedge() {
	form := zzPart()
	zzQuoteClass = 1 - form
	d := zzDig("d", 1)
	neg := zzBool("neg")
	rating := []byte{d[0]}
	if neg {
		rating = []byte{'-', '1'}
	}
	x, err := ParseXmp(zzReaderOf(zzOneProp("xmp:Rating", rating, form)))
	zzAssert(err == nil, "a well-formed packet parses without error")
	if neg {
		zzAssert(x.Basic.Rating == -1, "xmp:Rating -1 (rejected) is reported as -1")
	} else {
		zzAssert(int(x.Basic.Rating) == int(d[0]-'0'), "xmp:Rating 0..9 is reported as written")
	}
	y, _ := ParseXmp(zzReaderOf(zzOneProp("exif:MeteringMode", []byte("255"), form)))
	zzAssert(uint64(y.Exif.MeteringMode) == 255, "exif:MeteringMode 255 (Other) is reported as 255")
	z, _ := ParseXmp(zzReaderOf(zzOneProp("exif:PixelXDimension", []byte("4294967295"), form)))
	zzAssert(uint64(z.Exif.PixelXDimension) == 4294967295, "exif:PixelXDimension 4294967295 is reported as written")
	zzReached("end")
}

// date-valued properties: the reported instant is the result of the first of the three documented layouts (with zone
// "Z"/"+hh:mm", with a fraction, plain) that accepts the text. time.Parse is uninterpreted in the machine, so the
// obligation is that the reader hands the same text to the same layouts in the same order (term identity); natively
// the instants are compared.
func zzSpecDate(s string) (time.Time, bool) {
	for _, l := range []string{"2006-01-02T15:04:05Z07:00", "2006-01-02T15:04:05.00", "2006-01-02T15:04:05"} {
		if t, err := time.Parse(l, s); err == nil {
			return t, true
		}
	}
	return time.Time{}, false
}

func zzC13_dates_N() int { return 40 }
func zzC13_dates() {
	prop := []string{"xmp:CreateDate", "xmp:ModifyDate", "xmp:MetadataDate", "exif:DateTimeOriginal"}[zzPart()%4]
	form := zzPart() / 4 % 2
	val := []string{"2019-03-21T11:18:20Z", "2019-03-21T11:18:20+05:30", "2019-03-21T11:18:20-06:00", "2019-03-21T11:18:20.50", "2019-03-21T11:18:20"}[zzPart()/8]
	x, err := ParseXmp(zzReaderOf(zzOneProp(prop, []byte(val), form)))
	zzAssert(err == nil, "a well-formed packet parses without error")
	got := []time.Time{x.Basic.CreateDate, x.Basic.ModifyDate, x.Basic.MetadataDate, x.Exif.DateTimeOriginal}[zzPart()%4]
	if want, ok := zzSpecDate(val); ok {
		zzAssert(zzSameTime(got, want), "a date-valued property is the instant written, by the first documented layout that accepts it")
	}
	zzAssert(x.Tiff.Model == "md", "the property after it is reported too")
	zzReached("end")
}
