package xmp

// C01/C02 for xmp.ParseXmp: the root start tag followed by 8 arbitrary bytes (every truncation): ParseXmp returns (it
// recovers its own panics), within the step budget, having requested a bounded number of bytes.
func zzC01_xmp_free_N() int { return 2 }
func zzC01_xmp_free() {
	head := `<x:xmpmeta xmlns:x="adobe:ns:meta/">`
	if zzPart() == 1 {
		head += `<rdf:Description rdf:about="" `
	}
	b := append([]byte(head), zzBytes("f", 8)...)
	r := zzReaderTrunc(b, "t")
	_, _ = ParseXmp(r)
	zzAssert(r.Requested() <= 4*r.Len()+65536, "bytes requested from the reader stay within 4*len + 64 KiB")
	zzReached("end")
}
