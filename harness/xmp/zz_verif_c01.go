package xmp

// C01/C02 for xmp.ParseXmp: the root start tag followed by 8 arbitrary bytes (every truncation): ParseXmp returns (it
// recovers its own panics), within the step budget, having requested a bounded number of bytes.
func zzC01_xmp_free_N() int { return 2 }
func zzC01_xmp_free() {
	head := `<x:xmpmeta xmlns:x="adobe:ns:meta/">`
	if zzPart() == 1 {
		head += `<rdf:Description rdf:about="" `
	}
	b := append([]byte(head), zzBytes("f", 8)...)
	r := zzReaderTrunc(b, "t")
	_, _ = ParseXmp(r)
	zzAssert(r.Requested() <= 4*r.Len()+65536, "bytes requested from the reader stay within 4*len + 64 KiB")
	zzReached("end")
}

// long white-space runs after the last attribute (before "/>" and ">") and between tags, around the look-ahead steps:
// ParseXmp returns within the step budget
func zzC01_xmp_space_N() int { return 24 }
func zzC01_xmp_space() {
	n := []int{120, 128, 250, 251, 252, 253, 254, 255, 256, 300, 765, 770}[zzPart()/2]
	w := make([]byte, n)
	for i := range w {
		w[i] = " \n"[i%7/6]
	}
	v := zzBytes("v", 1)
	zzAssume(v[0] >= '0' && v[0] <= '9')
	var b []byte
	if zzPart()%2 == 0 {
		b = append([]byte(`<x:xmpmeta xmlns:x="adobe:ns:meta/"><rdf:Description rdf:about="" xmp:Rating="`), v[0], '"')
		b = append(b, w...)
		b = append(b, `/></x:xmpmeta>`...)
	} else {
		b = append([]byte(`<x:xmpmeta xmlns:x="adobe:ns:meta/"><rdf:Description rdf:about="" xmp:Rating="`), v[0], '"')
		b = append(b, w...)
		b = append(b, `>`...)
		b = append(b, w...)
		b = append(b, `</rdf:Description></x:xmpmeta>`...)
	}
	r := zzReaderOf(b)
	x, _ := ParseXmp(r)
	zzAssert(r.Requested() <= 4*r.Len()+65536, "bytes requested from the reader stay within 4*len + 64 KiB")
	_ = x
	zzReached("end")
}
