package imagetype

import "bufio"

// C01/imagetype: every sniffing entry point returns on every stream (length <= 40, any terminal error).
func zzC01_imagetype() {
	r := zzStream("d", 40)
	_, _ = Scan(r)
	r.Seek(0, 0)
	_, _ = ScanBuf(bufio.NewReaderSize(r, 32))
	_, _ = ReadAt(r)
	zzReached("end")
}

func zzC01_imagetype_buf_N() int { return 5 }
func zzC01_imagetype_buf() {
	p := zzPart()
	for n := p * 8; n < p*8+8; n++ {
		_, _ = Buf(zzBytes("b", n))
	}
	zzReached("end")
}
