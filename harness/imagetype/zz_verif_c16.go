package imagetype

// C16 - ImageType text form.
func zzC16_text_ImageType() {
	v := ImageType(zzU8("v"))
	t1, err := v.MarshalText()
	zzAssert(err == nil, "ImageType.MarshalText succeeds")
	var w ImageType
	zzAssert(w.UnmarshalText(t1) == nil, "ImageType.UnmarshalText accepts its own output")
	if v <= 20 {
		zzAssert(w == v, "ImageType: every documented member survives the text round trip")
	}
	t2, _ := w.MarshalText()
	same := len(t1) == len(t2)
	if same {
		for i := range t1 {
			same = same && t1[i] == t2[i]
		}
	}
	zzAssert(same, "ImageType: Marshal(Unmarshal(Marshal(v))) == Marshal(v)")
	zzReached("end")
}

func zzC16_total_text_N() int { return 8 }
func zzC16_total_text() {
	p := zzPart()
	for n := p * 6; n <= p*6+5; n++ {
		t := zzBytes("t", n)
		var w ImageType
		_ = w.UnmarshalText(t)
	}
	zzReached("end")
}
