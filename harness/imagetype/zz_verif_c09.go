package imagetype

import "bufio"

// C09 - image-type sniffing is a total, prefix-only, signature-correct classification.
// zzSpecType (generated from /verif/spec/imagetype_signatures.json) is the independent oracle.

// Buf on every 24-byte header followed by 0..8 arbitrary bytes equals the table; error mapping.
func zzC09_buf() {
	b := zzBytes("h", 32)
	want := zzSpecType(b[:24])
	for _, n := range []int{24, 25, 27, 32} {
		it, err := Buf(b[:n])
		zzAssert(it == want, "Buf(header++suffix) is the type of the first matching signature rule")
		zzAssert((it == ImageUnknown) == (err == ErrImageTypeNotFound), "ErrImageTypeNotFound exactly when the type is unknown")
		zzAssert(it == ImageUnknown || err == nil, "a recognised type comes with a nil error")
	}
	zzReached("end")
}

// Buffers shorter than 24 bytes: no type, ErrDataLength.
func zzC09_short() {
	b := zzBytes("h", 24)
	for n := 0; n < 24; n++ {
		it, err := Buf(b[:n])
		zzAssert(it == ImageUnknown && err == ErrDataLength, "short buffer gives ImageUnknown and ErrDataLength")
	}
	zzReached("end")
}

// Scan, ScanBuf and ReadAt agree with Buf on every stream (any length up to 40, any terminal error).
func zzC09_scan() {
	r := zzStream("d", 40)
	it, err := Scan(r)
	if r.Len() >= 24 {
		hdr := make([]byte, 24)
		n, _ := r.ReadAt(hdr, 0)
		zzAssert(n == 24, "model sanity")
		wit, werr := Buf(hdr)
		zzAssert(it == wit && err == werr, "Scan returns Buf's pair on a stream of at least 24 bytes")
		zzAssert(it == zzSpecType(hdr), "Scan's type is the signature-table type")
	} else {
		zzAssert(it == ImageUnknown && err != nil, "Scan on a short stream gives an error and no type")
	}
	zzReached("end")
}

func zzC09_scanbuf() {
	r := zzStream("d", 40)
	br := bufio.NewReaderSize(r, 64)
	it, err := ScanBuf(br)
	if r.Len() >= 24 {
		hdr := make([]byte, 24)
		r.ReadAt(hdr, 0)
		wit, werr := Buf(hdr)
		zzAssert(it == wit && err == werr, "ScanBuf returns Buf's pair on a stream of at least 24 bytes")
		// peek-only: the whole stream is still readable from the bufio.Reader, from byte 0
		got := make([]byte, 24)
		k := 0
		for k < 24 {
			n, e := br.Read(got[k:])
			k += n
			if e != nil {
				break
			}
		}
		zzAssert(k == 24, "ScanBuf leaves all bytes readable")
		same := true
		for i := 0; i < 24; i++ {
			same = same && got[i] == hdr[i]
		}
		zzAssert(same, "ScanBuf does not consume the stream (next bytes read are bytes 0..23)")
	} else {
		zzAssert(it == ImageUnknown && err != nil, "ScanBuf on a short stream gives an error and no type")
	}
	zzReached("end")
}

func zzC09_readat() {
	r := zzStream("d", 40)
	it, err := ReadAt(r)
	if r.Len() >= 24 {
		hdr := make([]byte, 24)
		r.ReadAt(hdr, 0)
		wit, werr := Buf(hdr)
		zzAssert(it == wit && err == werr, "ReadAt returns Buf's pair on a stream of at least 24 bytes")
	} else {
		zzAssert(it == ImageUnknown && err != nil, "ReadAt on a short stream gives an error and no type")
	}
	zzReached("end")
}
