package imagemeta

// C08 through the public entry points: the same file delivered in full reads and in arbitrary short reads (the first
// two reads of the source return any legal count) decodes to the same result. Containers: TIFF, JPEG, PNG, CR3.
func zzC08_containers_N() int { return 8 }
func zzC08_containers() {
	be := zzPart()%2 == 1
	p := zzPayload(be)
	var b []byte
	switch zzPart() / 2 {
	case 0:
		b = append(append([]byte{}, p...), make([]byte, 8)...)
	case 1:
		b = []byte{0xff, 0xd8, 0xff, 0xe0, 0, 7, 'J', 'F', 'I', 'F', 0}
		b = append(b, 0xff, 0xe1, 0, byte(2+6+len(p)))
		b = append(b, "Exif\x00\x00"...)
		b = append(b, p...)
		b = append(b, 0xff, 0xdb, 0, 2)
		b = append(b, make([]byte, 70)...)
	case 2:
		b = []byte("\x89PNG\r\n\x1a\n")
		b = append(b, 0, 0, 0, 4, 'z', 'z', 'z', 'z', 1, 2, 3, 4, 9, 9, 9, 9)
		b = append(b, 0, 0, 0, byte(len(p)), 'e', 'X', 'I', 'f')
		b = append(b, p...)
		b = append(b, 0, 0, 0, 0)
	default:
		n := len(p)
		b = []byte(zzFtypCR3)
		b = append(b, 0, 0, 0, byte(8+8+16+8+n), 'm', 'o', 'o', 'v')
		b = append(b, 0, 0, 0, byte(8+16+8+n), 'u', 'u', 'i', 'd')
		b = append(b, "\x85\xc0\xb6\x87\x82\x0f\x11\xe0\x81\x11\xf4\xce\x46\x2b\x6a\x48"...)
		b = append(b, 0, 0, 0, byte(8+n), 'C', 'M', 'T', '1')
		b = append(b, p...)
		b = append(b, 0, 0, 0, 8, 'f', 'r', 'e', 'e')
	}
	x, ex := Decode(zzReaderOf(b))
	y, ey := Decode(zzChunkedReaderOf2(b, "c"))
	zzAssert((ex == nil) == (ey == nil), "Decode: same success whatever the read sizes")
	zzAssert(zzSameFields(x, y) && x.ImageType == y.ImageType, "Decode: same fields whatever the read sizes")
	zzReached("end")
}
