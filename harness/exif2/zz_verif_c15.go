package exif2

// modifyDateEq: comparison helper for the C15 harness in the root package (the time fields are unexported)
func (t TimeTags) ModifyDateEqZZ(o Exif) bool { return t.modifyDate == o.Time.modifyDate }
