package exif2

// C08/exif2.Parse (unbuffered reader path): full delivery vs arbitrary short reads.
func zzC08_parse_N() int { return 2 }
func zzC08_parse() {
	be := zzPart() == 1
	o, w := zzU16("o"), zzU16("w")
	s := zzBytes("s", 6)
	for i := range s {
		zzAssume(s[i] > ' ' && s[i] < 0x7f)
	}
	t := zzNewTiff(8+2+3*12+4+8, be, 8)
	t.dir(8, 3, 0)
	t.entShort(8, 0, 0x0100, w)
	t.entShort(8, 1, 0x0112, o)
	t.ent(8, 2, 0x0131, 2, 7, 50)
	t.bytes(50, append(append([]byte{}, s...), 0))
	a, ea := Parse(zzReaderOf(t.b))
	b, eb := Parse(zzChunkedReaderOf(t.b, "c"))
	zzAssert((ea == nil) == (eb == nil), "exif2.Parse: same success whatever the read sizes")
	zzAssert(a.Orientation == b.Orientation && a.ImageWidth == b.ImageWidth && a.Software == b.Software, "exif2.Parse: same fields whatever the read sizes")
	zzReached("end")
}

// the same with gaps that the reader has to skip (first directory at offset 14, value 7 bytes after the directory):
// skipping must not depend on the read sizes either
func zzC08_parsegap_N() int { return 2 }
func zzC08_parsegap() {
	be := zzPart() == 1
	o, w := zzU16("o"), zzU16("w")
	s := zzBytes("s", 6)
	for i := range s {
		zzAssume(s[i] > ' ' && s[i] < 0x7f)
	}
	t := zzNewTiff(14+2+3*12+4+7+8, be, 14)
	t.dir(14, 3, 0)
	t.entShort(14, 0, 0x0100, w)
	t.entShort(14, 1, 0x0112, o)
	t.ent(14, 2, 0x0131, 2, 7, 63)
	t.bytes(63, append(append([]byte{}, s...), 0))
	a, ea := Parse(zzReaderOf(t.b))
	b, eb := Parse(zzChunkedReaderOf2(t.b, "c"))
	zzAssert((ea == nil) == (eb == nil), "exif2.Parse: same success whatever the read sizes (with gaps)")
	zzAssert(a.Orientation == b.Orientation && a.ImageWidth == b.ImageWidth && a.Software == b.Software, "exif2.Parse: same fields whatever the read sizes (with gaps)")
	zzAssert(len(a.Software) == 6 && a.ImageWidth == w, "the reference decode reports the written values")
	zzReached("end")
}
