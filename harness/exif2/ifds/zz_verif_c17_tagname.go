package ifds

import "github.com/evanoberholster/imagemeta/exif2/tag"

// C17 - tag-name lookups never panic: every directory type x every 16-bit tag id.
func zzC17_p_TagName() {
	t := IfdType(zzU8("t"))
	id := tag.ID(zzU16("id"))
	_ = t.TagName(id)
	zzReached("end")
}

// Ifd.String / Ifd.TagName on an arbitrary directory descriptor.
func zzC17_p_IfdStruct() {
	ifd := Ifd{Offset: zzU32("off"), BaseOffset: zzU32("base"), Type: IfdType(zzU8("t")), Index: int8(zzU8("idx"))}
	_ = ifd.String()
	_ = ifd.TagName(tag.ID(zzU16("id")))
	_ = ifd.IsValid()
	zzReached("end")
}

// the eight SubIfd directory types name their tags alike (every tag id; StripOffsets/StripByteCounts are the preview
// image in every sub-directory but SubIfd2, where they are the JPEG-from-raw image), with the documented names
func zzC17_SubIfd_names() {
	k := zzU8("k")
	zzAssume(k >= uint8(SubIfd0) && k <= uint8(SubIfd7))
	t := IfdType(zzConc(uint64(k), 8))
	id := tag.ID(zzU16("id"))
	if id != 0x0111 && id != 0x0117 {
		zzAssert(t.TagName(id) == SubIfd0.TagName(id), "SubIfd0..SubIfd7 give a tag the same name")
	}
	zzAssert(t.TagName(0x000b) == "ProcessingSoftware", "documented SubIfd tag name (ProcessingSoftware)")
	if t == SubIfd2 {
		zzAssert(t.TagName(0x0111) == "JpgFromRawStart" && t.TagName(0x0117) == "JpgFromRawLength", "documented SubIfd2 tag names")
	} else {
		zzAssert(t.TagName(0x0111) == "PreviewImageStart" && t.TagName(0x0117) == "PreviewImageLength", "documented SubIfd tag names")
	}
	zzReached("end")
}
