package ifds

import "github.com/evanoberholster/imagemeta/exif2/tag"

// C17 - tag-name lookups never panic: every directory type x every 16-bit tag id.
func zzC17_p_TagName() {
	t := IfdType(zzU8("t"))
	id := tag.ID(zzU16("id"))
	_ = t.TagName(id)
	zzReached("end")
}

// Ifd.String / Ifd.TagName on an arbitrary directory descriptor.
func zzC17_p_IfdStruct() {
	ifd := Ifd{Offset: zzU32("off"), BaseOffset: zzU32("base"), Type: IfdType(zzU8("t")), Index: int8(zzU8("idx"))}
	_ = ifd.String()
	_ = ifd.TagName(tag.ID(zzU16("id")))
	_ = ifd.IsValid()
	zzReached("end")
}
