package exif2

import (
	"bufio"
	"time"

	"github.com/evanoberholster/imagemeta/imagetype"
	"github.com/evanoberholster/imagemeta/meta"
	"github.com/evanoberholster/imagemeta/tiff"
)

// C03 - Exif fields of a well-formed forward-layout file are extracted with their exact values.
// Skeletons are concrete layouts (directories precede the values they reference); every value is a solver variable.

func zzDecode(b []byte) (Exif, error) {
	rr := bufio.NewReaderSize(zzReaderOf(b), 4096)
	h, err := tiff.ScanTiffHeader(rr, imagetype.ImageTiff)
	if err != nil {
		return Exif{}, err
	}
	ir := NewIfdReader(Logger)
	defer ir.Close()
	err = ir.DecodeTiff(rr, h)
	return ir.Exif, err
}

// zzText: n arbitrary printable non-space ASCII characters (the documented alphabet of Exif ASCII values without
// leading/trailing blanks), returned with the terminating NUL.
func zzText(name string, n int) []byte {
	s := zzBytes(name, n)
	for i := range s {
		zzAssume(s[i] > ' ' && s[i] < 0x7f)
	}
	return append(append([]byte{}, s...), 0)
}

func zzSame(s string, b []byte) bool {
	if len(s) != len(b)-1 {
		return false
	}
	eq := true
	for i := 0; i < len(s); i++ {
		eq = eq && s[i] == b[i]
	}
	return eq
}

// IFD0 scalars + a foreign tag; absent fields stay zero.
func zzC03_ifd0_scalars_N() int { return 2 }
func zzC03_ifd0_scalars() {
	be := zzPart() == 1
	w, hgt, so, sc, o, fv := zzU16("w"), zzU32("h"), zzU32("so"), zzU32("sc"), zzU16("o"), zzU16("fv")
	zzAssume(hgt <= 65535)
	t := zzNewTiff(8+2+6*12+4+16, be, 8)
	t.dir(8, 6, 0)
	t.entShort(8, 0, 0x0100, w)
	t.ent(8, 1, 0x0101, 4, 1, hgt)
	t.ent(8, 2, 0x0111, 4, 1, so)
	t.entShort(8, 3, 0x0112, o)
	t.ent(8, 4, 0x0117, 4, 1, sc)
	t.entShort(8, 5, 0x1234, fv) // foreign tag
	e, err := zzDecode(t.b)
	zzAssert(err == nil, "well-formed IFD0 decodes without error")
	zzAssert(e.ImageWidth == w, "ImageWidth (SHORT) is the encoded value")
	zzAssert(uint32(e.ImageHeight) == hgt, "ImageLength (LONG, <= 65535) is the encoded value")
	zzAssert(e.StripOffsets == so && e.StripByteCounts == sc, "StripOffsets / StripByteCounts (LONG) are the encoded values")
	zzAssert(uint16(e.Orientation) == o, "Orientation (SHORT) is the encoded value")
	zzAssert(e.Make == "" && e.Model == "" && e.Software == "" && e.Artist == "" && e.Copyright == "" && e.ISOSpeed == 0 && e.FNumber == 0 && e.LensModel == "" && e.Flash == 0,
		"absent fields are reported as zero values")
	zzReached("end")
}

// IFD0 strings: out-of-line and embedded, lengths 1..5 (part), with a foreign tag interleaved.
func zzC03_ifd0_strings_N() int { return 10 }
func zzC03_ifd0_strings() {
	be := zzPart()%2 == 1
	n := 1 + zzPart()/2
	sw, ar, cp, ds, md := zzText("sw", n), zzText("ar", n), zzText("cp", n), zzText("ds", n), zzText("md", n)
	t := zzNewTiff(8+2+6*12+4+5*8, be, 8)
	t.dir(8, 6, 0)
	// ascending tag ids; values in forward order behind the directory
	off := 8 + 2 + 6*12 + 4
	put := func(i int, id uint16, v []byte) {
		if len(v) <= 4 {
			t.entRaw(8, i, id, 2, uint32(len(v)), v)
			return
		}
		t.ent(8, i, id, 2, uint32(len(v)), uint32(off))
		t.bytes(off, v)
		off += 8
	}
	put(0, 0x010e, ds)
	put(1, 0x0110, md)
	t.entShort(8, 2, 0x1234, zzU16("fv"))
	put(3, 0x0131, sw)
	put(4, 0x013b, ar)
	put(5, 0x8298, cp)
	e, err := zzDecode(t.b)
	zzAssert(err == nil, "well-formed IFD0 decodes without error")
	zzAssert(zzSame(e.ImageDescription, ds), "ImageDescription is the encoded text")
	zzAssert(zzSame(e.Model, md), "Model is the encoded text")
	zzAssert(zzSame(e.Software, sw), "Software is the encoded text")
	zzAssert(zzSame(e.Artist, ar), "Artist is the encoded text")
	zzAssert(zzSame(e.Copyright, cp), "Copyright is the encoded text")
	zzReached("end")
}

// zzSameZone: two fixed zones are the same when name and offset agree (under gosmt: the zone constructor is
// uninterpreted, so this is equality of the constructor's arguments).
func zzSameZone(a, b *time.Location) bool {
	if a == nil || b == nil {
		return a == b
	}
	na, oa := time.Date(2000, 1, 1, 0, 0, 0, 0, a).Zone()
	nb, ob := time.Date(2000, 1, 1, 0, 0, 0, 0, b).Zone()
	return na == nb && oa == ob
}

func zzDigits(name string, n int) []byte {
	d := zzBytes(name, n)
	for i := range d {
		zzAssume(d[i] >= '0' && d[i] <= '9')
	}
	return d
}

func zzNum(d []byte) int {
	v := 0
	for _, c := range d {
		v = v*10 + int(c-'0')
	}
	return v
}

func zzStamp(d []byte) []byte {
	return []byte{d[0], d[1], d[2], d[3], ':', d[4], d[5], ':', d[6], d[7], ' ', d[8], d[9], ':', d[10], d[11], ':', d[12], d[13], 0}
}

func zzWhen(d []byte) time.Time {
	return time.Date(zzNum(d[0:4]), time.Month(zzNum(d[4:6])), zzNum(d[6:8]), zzNum(d[8:10]), zzNum(d[10:12]), zzNum(d[12:14]), 0, time.UTC)
}

// the three timestamps, sub-seconds (3 digits) and zone offsets: IFD0{DateTime, ExifTag} + ExifIFD{...}
func zzC03_times_N() int { return 2 }
func zzC03_times() {
	be := zzPart() == 1
	dm, do, dd := zzDigits("dm", 14), zzDigits("do", 14), zzDigits("dd", 14)
	ss := zzDigits("ss", 3)
	zo := zzDigits("zo", 4)
	sign := zzU8("sign")
	zzAssume(sign == '+' || sign == '-')
	// IFD0 at 8 (2 entries) -> values: DateTime at 38 (20 bytes); ExifIFD at 58 (5 entries) -> values behind it
	t := zzNewTiff(58+2+5*12+4+20+20+8, be, 8)
	t.dir(8, 2, 0)
	t.ent(8, 0, 0x0132, 2, 20, 38)
	t.ent(8, 1, 0x8769, 4, 1, 58)
	t.bytes(38, zzStamp(dm))
	t.dir(58, 5, 0)
	v0 := 58 + 2 + 5*12 + 4
	t.ent(58, 0, 0x9003, 2, 20, uint32(v0))
	t.ent(58, 1, 0x9004, 2, 20, uint32(v0+20))
	t.ent(58, 2, 0x9011, 2, 7, uint32(v0+40))
	t.entRaw(58, 3, 0x9291, 2, 4, []byte{ss[0], ss[1], ss[2], 0})
	t.entShort(58, 4, 0xeeee, zzU16("fv"))
	t.bytes(v0, zzStamp(do))
	t.bytes(v0+20, zzStamp(dd))
	t.bytes(v0+40, []byte{sign, zo[0], zo[1], ':', zo[2], zo[3], 0})
	e, err := zzDecode(t.b)
	zzAssert(err == nil, "well-formed file decodes without error")
	zzAssert(e.Time.modifyDate == zzWhen(dm), "DateTime: the six decimal components of YYYY:MM:DD HH:MM:SS")
	zzAssert(e.Time.dateTimeOriginal == zzWhen(do), "DateTimeOriginal: the six decimal components")
	zzAssert(e.Time.createDate == zzWhen(dd), "DateTimeDigitized: the six decimal components")
	zzAssert(int(e.Time.subSecTimeOriginal) == zzNum(ss), "SubSecTimeOriginal (3 digits) is that many milliseconds")
	zzAssert(e.Time.subSecTime == 0 && e.Time.subSecTimeDigitized == 0 && e.Time.offsetTime == nil && e.Time.offsetTimeDigitized == nil, "absent sub-second / offset tags stay zero")
	secs := zzNum(zo[0:2])*3600 + zzNum(zo[2:4])*60
	if sign == '-' {
		secs = -secs
	}
	want := time.FixedZone(string([]byte{sign, zo[0], zo[1], ':', zo[2], zo[3]}), secs)
	zzAssert(zzSameZone(e.Time.offsetTimeOriginal, want), "OffsetTimeOriginal +-HH:MM is a zone of +-(3600*HH+60*MM) seconds")
	zzReached("end")
}

// ExifIFD numeric fields
func zzC03_exif_numbers_N() int { return 2 }
func zzC03_exif_numbers() {
	be := zzPart() == 1
	etn, etd, fnn, fnd, fln, fld := zzU32("etn"), zzU32("etd"), zzU32("fnn"), zzU32("fnd"), zzU32("fln"), zzU32("fld")
	ebn, ebd := zzI32("ebn"), zzI32("ebd")
	zzAssume(ebn >= -128 && ebn <= 127 && ebd >= 0 && ebd <= 127)
	prog, mode, mm, fl, iso, f35 := zzU16("prog"), zzU16("mode"), zzU16("mm"), zzU16("fl"), zzU16("iso"), zzU16("f35")
	li := zzBytes("li", 32)
	t := zzNewTiff(26+2+11*12+4+4*8+32, be, 8)
	t.dir(8, 1, 0)
	t.ent(8, 0, 0x8769, 4, 1, 26)
	t.dir(26, 11, 0)
	v0 := 26 + 2 + 11*12 + 4
	t.ent(26, 0, 0x829a, 5, 1, uint32(v0))
	t.ent(26, 1, 0x829d, 5, 1, uint32(v0+8))
	t.entShort(26, 2, 0x8822, prog)
	t.entShort(26, 3, 0x8827, iso)
	t.ent(26, 4, 0x9204, 10, 1, uint32(v0+16))
	t.entShort(26, 5, 0x9207, mm)
	t.entShort(26, 6, 0x9209, fl)
	t.ent(26, 7, 0x920a, 5, 1, uint32(v0+24))
	t.entShort(26, 8, 0xa402, mode)
	t.entShort(26, 9, 0xa405, f35)
	t.ent(26, 10, 0xa432, 5, 4, uint32(v0+32))
	t.put32(v0, etn)
	t.put32(v0+4, etd)
	t.put32(v0+8, fnn)
	t.put32(v0+12, fnd)
	t.put32(v0+16, uint32(ebn))
	t.put32(v0+20, uint32(ebd))
	t.put32(v0+24, fln)
	t.put32(v0+28, fld)
	t.bytes(v0+32, li)
	e, err := zzDecode(t.b)
	zzAssert(err == nil, "well-formed file decodes without error")
	zzAssert(zzF32bits(float32(e.ExposureTime)) == zzF32bits(float32(etn)/float32(etd)), "ExposureTime is float32(n)/float32(d)")
	zzAssert(zzF32bits(float32(e.FNumber)) == zzF32bits(float32(fnn)/float32(fnd)), "FNumber is float32(n)/float32(d)")
	zzAssert(zzF32bits(float32(e.FocalLength)) == zzF32bits(float32(fln)/float32(fld)), "FocalLength is float32(n)/float32(d)")
	zzAssert(int32(int16(e.ExposureBias)>>8) == ebn && int32(uint16(e.ExposureBias)&0xff) == ebd, "ExposureBias packs numerator and denominator")
	zzAssert(uint16(e.ExposureProgram) == prog && uint16(e.ExposureMode) == mode && uint16(e.MeteringMode) == mm && uint16(e.Flash) == fl, "ExposureProgram / ExposureMode / MeteringMode / Flash are the encoded SHORTs")
	zzAssert(e.ISOSpeed == uint32(iso), "ISOSpeedRatings (SHORT) is the encoded value")
	zzAssert(zzF32bits(float32(e.FocalLengthIn35mmFormat)) == zzF32bits(float32(uint32(f35))/float32(1)), "FocalLengthIn35mmFilm (SHORT) is the encoded value")
	for k := 0; k < 8; k++ {
		zzAssert(e.LensInfo[k] == t.get32(li[4*k:4*k+4]), "LensSpecification: the eight 32-bit words in order")
	}
	zzReached("end")
}

// ExifIFD strings
func zzC03_exif_strings_N() int { return 6 }
func zzC03_exif_strings() {
	be := zzPart()%2 == 1
	n := []int{2, 4, 7}[zzPart()/2]
	lm, lo, ls, ow, bs := zzText("lm", n), zzText("lo", n), zzText("ls", n), zzText("ow", n), zzText("bs", n)
	t := zzNewTiff(26+2+5*12+4+5*8, be, 8)
	t.dir(8, 1, 0)
	t.ent(8, 0, 0x8769, 4, 1, 26)
	t.dir(26, 5, 0)
	off := 26 + 2 + 5*12 + 4
	put := func(i int, id uint16, v []byte) {
		if len(v) <= 4 {
			t.entRaw(26, i, id, 2, uint32(len(v)), v)
			return
		}
		t.ent(26, i, id, 2, uint32(len(v)), uint32(off))
		t.bytes(off, v)
		off += 8
	}
	put(0, 0xa430, ow)
	put(1, 0xa431, bs)
	put(2, 0xa433, lm)
	put(3, 0xa434, lo)
	put(4, 0xa435, ls)
	e, err := zzDecode(t.b)
	zzAssert(err == nil, "well-formed file decodes without error")
	zzAssert(zzSame(e.LensMake, lm) && zzSame(e.LensModel, lo) && zzSame(e.LensSerial, ls), "LensMake / LensModel / LensSerialNumber are the encoded texts")
	zzAssert(zzSame(e.Artist, ow), "CameraOwnerName is reported as Artist when no Artist tag exists")
	zzAssert(zzSame(e.CameraSerial, bs), "BodySerialNumber is reported as CameraSerial when no CameraSerialNumber tag exists")
	zzReached("end")
}

// GPS
func zzC03_gps_N() int { return 2 }
func zzC03_gps() {
	be := zzPart() == 1
	la, lo := zzBytes("la", 24), zzBytes("lo", 24)
	latRef, lonRef, altRef := zzU8("latref"), zzU8("lonref"), zzU8("altref")
	zzAssume((latRef == 'N' || latRef == 'S') && (lonRef == 'E' || lonRef == 'W') && altRef <= 1)
	an, ad := zzU32("an"), zzU32("ad")
	ts := zzBytes("ts", 24)
	// GPSTimeStamp denominators 0 or 1 (symbolic 32-bit quotients do not finish in the solver; stated bound)
	for _, k := range []int{4, 12, 20} {
		dv := zzU8([]string{"", "", "", "", "tsd0", "", "", "", "", "", "", "", "tsd1", "", "", "", "", "", "", "", "tsd2"}[k])
		zzAssume(dv <= 1)
		dc := byte(zzConc(uint64(dv), 2))
		if be {
			ts[k], ts[k+1], ts[k+2], ts[k+3] = 0, 0, 0, dc
		} else {
			ts[k], ts[k+1], ts[k+2], ts[k+3] = dc, 0, 0, 0
		}
	}
	ds := zzDigits("ds", 8)
	t := zzNewTiff(26+2+8*12+4+24+24+8+24+12, be, 8)
	t.dir(8, 1, 0)
	t.ent(8, 0, 0x8825, 4, 1, 26)
	t.dir(26, 8, 0)
	v0 := 26 + 2 + 8*12 + 4
	t.entRaw(26, 0, 0x0001, 2, 2, []byte{latRef, 0})
	t.ent(26, 1, 0x0002, 5, 3, uint32(v0))
	t.entRaw(26, 2, 0x0003, 2, 2, []byte{lonRef, 0})
	t.ent(26, 3, 0x0004, 5, 3, uint32(v0+24))
	t.entRaw(26, 4, 0x0005, 1, 1, []byte{altRef})
	t.ent(26, 5, 0x0006, 5, 1, uint32(v0+48))
	t.ent(26, 6, 0x0007, 5, 3, uint32(v0+56))
	t.ent(26, 7, 0x001d, 2, 11, uint32(v0+80))
	t.bytes(v0, la)
	t.bytes(v0+24, lo)
	t.put32(v0+48, an)
	t.put32(v0+52, ad)
	t.bytes(v0+56, ts)
	t.bytes(v0+80, []byte{ds[0], ds[1], ds[2], ds[3], ':', ds[4], ds[5], ':', ds[6], ds[7], 0})
	e, err := zzDecode(t.b)
	zzAssert(err == nil, "well-formed file decodes without error")
	coord := func(b []byte) float64 {
		c := float64(t.get32(b[0:4])) / float64(t.get32(b[4:8]))
		c += float64(t.get32(b[8:12])) / float64(t.get32(b[12:16])) / 60.0
		c += float64(t.get32(b[16:20])) / float64(t.get32(b[20:24])) / 3600.0
		return c
	}
	zzAssert(zzF64bits(e.GPS.latitude) == zzF64bits(coord(la)), "GPSLatitude is deg + min/60 + sec/3600")
	zzAssert(zzF64bits(e.GPS.longitude) == zzF64bits(coord(lo)), "GPSLongitude is deg + min/60 + sec/3600")
	zzAssert(e.GPS.latitudeRef == (latRef == 'S') && e.GPS.longitudeRef == (lonRef == 'W') && e.GPS.altitudeRef == (altRef == 1), "hemisphere / altitude reference select the sign")
	zzAssert(zzF32bits(e.GPS.altitude) == zzF32bits(float32(an)/float32(ad)), "GPSAltitude is float32(n)/float32(d)")
	if latRef == 'S' {
		zzAssert(zzF64bits(e.GPS.Latitude()) == zzF64bits(-1*coord(la)), "southern latitudes are negative")
	} else {
		zzAssert(zzF64bits(e.GPS.Latitude()) == zzF64bits(coord(la)), "northern latitudes are positive")
	}
	var want uint32
	if d := t.get32(ts[4:8]); d > 0 {
		want += t.get32(ts[0:4]) / d * 3600
	}
	if d := t.get32(ts[12:16]); d > 0 {
		want += t.get32(ts[8:12]) / d * 60
	}
	if d := t.get32(ts[20:24]); d > 0 {
		want += t.get32(ts[16:20]) / d
	}
	zzAssert(e.GPS.time == want, "GPSTimeStamp is 3600*h + 60*m + s (integer quotients)")
	zzAssert(e.GPS.date == time.Date(zzNum(ds[0:4]), time.Month(zzNum(ds[4:6])), zzNum(ds[6:8]), 0, 0, 0, 0, time.UTC), "GPSDateStamp: YYYY:MM:DD")
	_ = meta.Aperture(0)
	zzReached("end")
}

// SubSecTime with 1, 2, 3 (embedded) and 6 (out of line) digits: a decimal fraction of a second, in milliseconds.
func zzC03_subsec_N() int { return 4 }
func zzC03_subsec() {
	n := []int{1, 2, 3, 6}[zzPart()]
	d := zzDigits("d", n)
	t := zzNewTiff(26+2+1*12+4+8, false, 8)
	t.dir(8, 1, 0)
	t.ent(8, 0, 0x8769, 4, 1, 26)
	t.dir(26, 1, 0)
	v := append(append([]byte{}, d...), 0)
	if len(v) <= 4 {
		t.entRaw(26, 0, 0x9290, 2, uint32(len(v)), v)
	} else {
		t.ent(26, 0, 0x9290, 2, uint32(len(v)), 44)
		t.bytes(44, v)
	}
	e, err := zzDecode(t.b)
	zzAssert(err == nil, "well-formed file decodes without error")
	ms := 0
	for i, w := 0, 100; i < n && i < 3; i, w = i+1, w/10 {
		ms += int(d[i]-'0') * w
	}
	zzAssert(int(e.Time.subSecTime) == ms, "SubSecTime digits d1d2d3.. are the decimal fraction 0.d1d2d3 of a second, i.e. 100*d1+10*d2+d3 ms")
	zzReached("end")
}

// directories at the documented limit: 127 and 128 entries (foreign SHORT tags plus Orientation as the last entry)
func zzC03_bigdir_N() int { return 2 }
func zzC03_bigdir() {
	n := 127 + zzPart()
	o := zzU16("o")
	t := zzNewTiff(8+2+12*n+4+8, false, 8)
	t.dir(8, n, 0)
	t.entShort(8, 0, 0x0112, o)
	for i := 1; i < n; i++ {
		t.entShort(8, i, uint16(0x1000+i), uint16(i))
	}
	e, err := zzDecode(t.b)
	zzAssert(err == nil, "a directory with up to 128 entries decodes without error")
	zzAssert(uint16(e.Orientation) == o, "fields of a directory with up to 128 entries are reported")
	zzReached("end")
}

// GPSTimeStamp written with scaled rationals (h*d/d, m*d/d, s*d/d for d in {1, 1000, 10^6, 10^7, 10^8}): the time of
// day is 3600*h + 60*m + s whatever the scale. h, m, s are case split over their whole ranges' corner values.
func zzC03_gpstime_N() int { return 10 }
func zzC03_gpstime() {
	be := zzPart()%2 == 1
	d := []uint32{1, 1000, 1000000, 10000000, 100000000}[zzPart()/2]
	h, m, s := zzU8("h"), zzU8("m"), zzU8("s")
	zzAssume(h <= 23 && (m == 0 || m == 1 || m == 30 || m == 42 || m == 59) && (s == 0 || s == 15 || s == 42 || s == 59))
	h, m, s = uint8(zzConc(uint64(h), 24)), uint8(zzConc(uint64(m), 5)), uint8(zzConc(uint64(s), 4))
	if d == 100000000 { // numerators stay below 2^32
		zzAssume(h <= 23 && m <= 42 && s <= 42)
	}
	t := zzNewTiff(26+2+12+4+24+8, be, 8)
	t.dir(8, 1, 0)
	t.ent(8, 0, 0x8825, 4, 1, 26)
	t.dir(26, 1, 0)
	t.ent(26, 0, 0x0007, 5, 3, 44)
	t.put32(44, uint32(h)*d)
	t.put32(48, d)
	t.put32(52, uint32(m)*d)
	t.put32(56, d)
	t.put32(60, uint32(s)*d)
	t.put32(64, d)
	e, err := zzDecode(t.b)
	zzAssert(err == nil, "well-formed file decodes without error")
	zzAssert(e.GPS.time == 3600*uint32(h)+60*uint32(m)+uint32(s), "GPSTimeStamp is 3600*h + 60*m + s whatever the scale of its rationals")
	zzReached("end")
}
