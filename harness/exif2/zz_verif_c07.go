package exif2

import (
	"bufio"

	"github.com/evanoberholster/imagemeta/exif2/ifds"
	"github.com/evanoberholster/imagemeta/exif2/tag"
	"github.com/evanoberholster/imagemeta/imagetype"
	"github.com/evanoberholster/imagemeta/meta/utils"
	"github.com/evanoberholster/imagemeta/tiff"
)

// C07 - byte order is transparent.

// (i) all 2^96 IFD entries: the entry decoder reads the same logical tag from the II bytes and from their
// field-wise byte-swapped MM twin; the embedded value is reproduced as it lies in the file.
func zzC07_entry() {
	e := zzBytes("e", 12) // II encoding
	m := []byte{e[1], e[0], e[3], e[2], e[7], e[6], e[5], e[4], e[11], e[10], e[9], e[8]}
	it := ifds.IfdType(zzU8("ifd"))
	base := zzU32("base")
	tl, el := tagFromBuffer(ifds.NewIFD(utils.LittleEndian, it, 0, 0, base), e)
	tb, eb := tagFromBuffer(ifds.NewIFD(utils.BigEndian, it, 0, 0, base), m)
	zzAssert((el == nil) == (eb == nil), "tagFromBuffer: same validity under II and MM")
	zzAssert(tl.ID == tb.ID && tl.Type == tb.Type && tl.UnitCount == tb.UnitCount && tl.ValueOffset == tb.ValueOffset && tl.Ifd == tb.Ifd && tl.IfdIndex == tb.IfdIndex,
		"tagFromBuffer: II entry and byte-swapped MM entry decode to the same tag")
	zzAssert(tl.ByteOrder == utils.LittleEndian && tb.ByteOrder == utils.BigEndian, "tagFromBuffer records the directory's byte order")
	zzAssert(tl.ID == tag.ID(uint16(e[0])|uint16(e[1])<<8) && tl.UnitCount == uint32(e[4])|uint32(e[5])<<8|uint32(e[6])<<16|uint32(e[7])<<24,
		"tagFromBuffer: id and count are the little-endian fields of the entry")
	if base == 0 {
		var sl, sb [4]byte
		tl.EmbeddedValue(sl[:])
		tb.EmbeddedValue(sb[:])
		zzAssert(sl[0] == e[8] && sl[1] == e[9] && sl[2] == e[10] && sl[3] == e[11], "EmbeddedValue (II) reproduces the slot bytes as they lie in the file")
		zzAssert(sb[0] == m[8] && sb[1] == m[9] && sb[2] == m[10] && sb[3] == m[11], "EmbeddedValue (MM) reproduces the slot bytes as they lie in the file")
	}
	zzReached("end")
}

// zzDecodeOne decodes a one-entry IFD0 (entry e, value window v at offset 26) through the buffered reader path.
func zzDecodeOne(be bool, e []byte, v []byte) (Exif, error) {
	n := 8 + 2 + 12 + 4 + len(v)
	if n < 40 {
		n = 40 // the header search needs 32 bytes
	}
	t := zzNewTiff(n, be, 8)
	t.dir(8, 1, 0)
	t.bytes(10, e)
	t.bytes(26, v)
	rr := bufio.NewReaderSize(zzReaderOf(t.b), 4096)
	h, err := tiff.ScanTiffHeader(rr, imagetype.ImageTiff)
	if err != nil {
		return Exif{}, err
	}
	ir := NewIfdReader(Logger)
	defer ir.Close()
	err = ir.DecodeTiff(rr, h)
	return ir.Exif, err
}

func zzEnt(be bool, id, typ uint16, cnt, val uint32) []byte {
	t := &zzTiff{b: make([]byte, 14), be: be}
	t.ent(0, 0, id, typ, cnt, val)
	return t.b[2:14]
}

// (iii) paired end-to-end: one logical IFD0 record, II and MM encodings, equal results. Parts: field kinds.
func zzC07_pair_N() int { return 7 }
func zzC07_pair() {
	var a, b Exif
	var ea, eb error
	switch zzPart() {
	case 0: // SHORT embedded (left-justified), count 1 with arbitrary bytes in the unused half of the slot, or count 2:
		// Orientation, ImageWidth/Height (16-bit fields) and StripOffsets/StripByteCounts (SHORT widened to 32 bits)
		v, w := zzU16("v"), zzU16("pad")
		cnt := zzU32("cnt")
		zzAssume(cnt == 1 || cnt == 2)
		cnt = uint32(zzConc(uint64(cnt), 2))
		for _, id := range []uint16{0x0112, 0x0100, 0x0101, 0x0111, 0x0117} {
			sl := []byte{byte(v), byte(v >> 8), byte(w), byte(w >> 8)}
			sm := []byte{byte(v >> 8), byte(v), byte(w >> 8), byte(w)}
			el := append(zzEnt(false, id, 3, cnt, 0)[:8], sl...)
			em := append(zzEnt(true, id, 3, cnt, 0)[:8], sm...)
			a, ea = zzDecodeOne(false, el, nil)
			b, eb = zzDecodeOne(true, em, nil)
			zzAssert((ea == nil) == (eb == nil) && a.Orientation == b.Orientation && a.ImageWidth == b.ImageWidth && a.ImageHeight == b.ImageHeight &&
				a.StripOffsets == b.StripOffsets && a.StripByteCounts == b.StripByteCounts, "SHORT fields decode alike under II and MM")
			zzAssert(uint16(a.Orientation) == v || id != 0x0112 || cnt != 1, "Orientation is the SHORT value")
			zzAssert(a.ImageWidth == v || id != 0x0100 || cnt != 1, "ImageWidth is the SHORT value")
			zzAssert(a.StripOffsets == uint32(v) || id != 0x0111 || cnt != 1, "StripOffsets given as a SHORT is that value")
		}
	case 1: // LONG embedded: StripOffsets, ImageWidth as LONG
		v := zzU32("v")
		for _, id := range []uint16{0x0111, 0x0117, 0x0100} {
			a, ea = zzDecodeOne(false, zzEnt(false, id, 4, 1, v), nil)
			b, eb = zzDecodeOne(true, zzEnt(true, id, 4, 1, v), nil)
			zzAssert((ea == nil) == (eb == nil) && a.StripOffsets == b.StripOffsets && a.StripByteCounts == b.StripByteCounts && a.ImageWidth == b.ImageWidth, "LONG fields decode alike under II and MM")
			zzAssert(a.StripOffsets == v || id != 0x0111, "StripOffsets is the LONG value")
		}
	case 2: // ASCII embedded (3 chars + NUL): byte strings are not swapped
		s := zzBytes("s", 3)
		for i := range s {
			zzAssume(s[i] > ' ' && s[i] < 0x7f)
		}
		el := append(zzEnt(false, 0x0131, 2, 4, 0)[:8], s[0], s[1], s[2], 0)
		em := append(zzEnt(true, 0x0131, 2, 4, 0)[:8], s[0], s[1], s[2], 0)
		a, ea = zzDecodeOne(false, el, nil)
		b, eb = zzDecodeOne(true, em, nil)
		zzAssert((ea == nil) == (eb == nil) && a.Software == b.Software, "embedded ASCII decodes alike under II and MM")
		zzAssert(len(a.Software) == 3 && a.Software[0] == s[0] && a.Software[1] == s[1] && a.Software[2] == s[2], "embedded ASCII is the 3 characters before the NUL")
	case 3: // ASCII out of line
		s := zzBytes("s", 7)
		for i := range s {
			zzAssume(s[i] > ' ' && s[i] < 0x7f)
		}
		v := append(append([]byte{}, s...), 0)
		a, ea = zzDecodeOne(false, zzEnt(false, 0x010e, 2, 8, 26), v)
		b, eb = zzDecodeOne(true, zzEnt(true, 0x010e, 2, 8, 26), v)
		zzAssert((ea == nil) == (eb == nil) && a.ImageDescription == b.ImageDescription, "out-of-line ASCII decodes alike under II and MM")
		zzAssert(len(a.ImageDescription) == 7, "out-of-line ASCII keeps its 7 characters")
	case 4: // DateTime
		d := zzBytes("d", 14)
		for i := range d {
			zzAssume(d[i] >= '0' && d[i] <= '9')
		}
		v := []byte{d[0], d[1], d[2], d[3], ':', d[4], d[5], ':', d[6], d[7], ' ', d[8], d[9], ':', d[10], d[11], ':', d[12], d[13], 0}
		a, ea = zzDecodeOne(false, zzEnt(false, 0x0132, 2, 20, 26), v)
		b, eb = zzDecodeOne(true, zzEnt(true, 0x0132, 2, 20, 26), v)
		zzAssert((ea == nil) == (eb == nil) && a.Time.modifyDate == b.Time.modifyDate, "DateTime decodes alike under II and MM")
	case 6: // GPS directory: reference tags (BYTE / ASCII embedded) and altitude, II vs MM
		ar, lr := zzU8("ar"), zzU8("lr")
		zzAssume(ar <= 1 && (lr == 'N' || lr == 'S'))
		an, ad := zzU32("an"), zzU32("ad")
		var res [2]Exif
		var errs [2]error
		for k, be := range []bool{false, true} {
			t := zzNewTiff(26+2+3*12+4+8, be, 8)
			t.dir(8, 1, 0)
			t.ent(8, 0, 0x8825, 4, 1, 26)
			t.dir(26, 3, 0)
			t.entRaw(26, 0, 0x0001, 2, 2, []byte{lr, 0})
			t.entRaw(26, 1, 0x0005, 1, 1, []byte{ar})
			t.ent(26, 2, 0x0006, 5, 1, 68)
			t.put32(68, an)
			t.put32(72, ad)
			rr := bufio.NewReaderSize(zzReaderOf(t.b), 4096)
			h, err := tiff.ScanTiffHeader(rr, imagetype.ImageTiff)
			zzAssert(err == nil, "header found")
			ir := NewIfdReader(Logger)
			errs[k] = ir.DecodeTiff(rr, h)
			res[k] = ir.Exif
			ir.Close()
		}
		zzAssert((errs[0] == nil) == (errs[1] == nil), "GPS directory decodes alike under II and MM (error)")
		zzAssert(res[0].GPS.altitudeRef == res[1].GPS.altitudeRef && res[0].GPS.latitudeRef == res[1].GPS.latitudeRef, "GPS reference tags decode alike under II and MM")
		zzAssert(res[0].GPS.altitudeRef == (ar == 1) && res[0].GPS.latitudeRef == (lr == 'S'), "GPS reference tags carry the encoded sign")
		zzAssert(zzF32bits(res[0].GPS.altitude) == zzF32bits(res[1].GPS.altitude), "GPSAltitude decodes alike under II and MM")
	case 5: // an arbitrary entry with an arbitrary 8-byte value: nothing but the byte order differs
		id, typ, cnt := zzU16("id"), zzU16("typ"), zzU32("cnt")
		zzAssume(typ <= 13 && cnt <= 8)
		typ = uint16(zzConc(uint64(typ), 14))
		cnt = uint32(zzConc(uint64(cnt), 9))
		zzAssume(id == 0x0112 || id == 0x0100 || id == 0x0111 || id == 0x010f || id == 0x0131 || id == 0x8298 || id == 0xc62f || id == 0x1234)
		id = uint16(zzConc(uint64(id), 8))
		s := zzBytes("s", 4)
		unit := []int{0, 1, 1, 2, 4, 8, 0, 1, 2, 4, 8, 4, 8, 0}[typ]
		if unit*int(cnt) <= 4 && (typ == 1 || typ == 2 || typ == 7) {
			// byte-typed embedded values are not swapped
			el := append(zzEnt(false, id, typ, cnt, 0)[:8], s...)
			em := append(zzEnt(true, id, typ, cnt, 0)[:8], s...)
			a, ea = zzDecodeOne(false, el, nil)
			b, eb = zzDecodeOne(true, em, nil)
			zzAssert((ea == nil) == (eb == nil) && a.Make == b.Make && a.Software == b.Software && a.Copyright == b.Copyright && a.CameraSerial == b.CameraSerial && a.Orientation == b.Orientation,
				"byte-typed embedded values decode alike under II and MM")
		}
	}
	zzReached("end")
}

// SHORT values of three units lie out of line: StripOffsets / StripByteCounts given as SHORT[3] report the first unit,
// alike under II and MM
func zzC07_short3() {
	v := []uint16{zzU16("v0"), zzU16("v1"), zzU16("v2")}
	for _, id := range []uint16{0x0111, 0x0117} {
		var res [2]Exif
		var errs [2]error
		for k, be := range []bool{false, true} {
			val := make([]byte, 6)
			for i, x := range v {
				if be {
					val[2*i], val[2*i+1] = byte(x>>8), byte(x)
				} else {
					val[2*i], val[2*i+1] = byte(x), byte(x>>8)
				}
			}
			res[k], errs[k] = zzDecodeOne(be, zzEnt(be, id, 3, 3, 26), append(val, make([]byte, 10)...))
		}
		zzAssert((errs[0] == nil) == (errs[1] == nil) && res[0].StripOffsets == res[1].StripOffsets && res[0].StripByteCounts == res[1].StripByteCounts, "SHORT[3] fields decode alike under II and MM")
		zzAssert(res[0].StripOffsets == uint32(v[0]) || id != 0x0111, "StripOffsets given as SHORT[3] is its first unit")
	}
	zzReached("end")
}

// the TIFF block is located by scanning (as in HEIF files and exif2.Parse): 1 or 3 filler bytes in front of it, II and MM
// encodings of the same record give the same result
func zzC07_scan_N() int { return 2 }
func zzC07_scan() {
	k := 1 + 2*zzPart()
	v := zzU16("v")
	var res [2]Exif
	var errs [2]error
	for i, be := range []bool{false, true} {
		t := zzNewTiff(8+2+12+4+32, be, 8)
		t.dir(8, 1, 0)
		t.entShort(8, 0, 0x0112, v)
		b := append(make([]byte, 0, 64), []byte("xyz")[:k]...)
		b = append(b, t.b...)
		rr := bufio.NewReaderSize(zzReaderOf(b), 4096)
		h, err := tiff.ScanTiffHeader(rr, imagetype.ImageTiff)
		if err != nil {
			errs[i] = err
			continue
		}
		ir := NewIfdReader(Logger)
		errs[i] = ir.DecodeTiff(rr, h)
		res[i] = ir.Exif
		ir.Close()
	}
	zzAssert((errs[0] == nil) == (errs[1] == nil), "a block found by scanning decodes alike under II and MM (error)")
	zzAssert(res[0].Orientation == res[1].Orientation && uint16(res[0].Orientation) == v, "a block found by scanning decodes alike under II and MM")
	zzReached("end")
}
