package exif2

import (
	"bufio"

	"github.com/evanoberholster/imagemeta/imagetype"
	"github.com/evanoberholster/imagemeta/tiff"
)

// C04 - a result depends only on the bytes of that call. History is a solver variable: after zzPoolHavoc every object
// handed out by a sync.Pool (tag buffer with its 84 tags, scratch bytes and counters) has arbitrary contents.

func zzDecode04(b []byte) (Exif, error) {
	rr := bufio.NewReaderSize(zzReaderOf(b), 4096)
	h, err := tiff.ScanTiffHeader(rr, imagetype.ImageTiff)
	if err != nil {
		return Exif{}, err
	}
	ir := NewIfdReader(Logger)
	defer ir.Close()
	err = ir.DecodeTiff(rr, h)
	return ir.Exif, err
}

// IFD0 {ImageWidth, Orientation, Software out of line} + next-IFD pointer to an IFD1 with one foreign entry: the result
// is the same for every pool history
func zzC04_exif_N() int { return 2 }
func zzC04_exif() {
	be := zzPart() == 1
	w, o := zzU16("w"), zzU16("o")
	s := zzBytes("s", 5)
	for _, c := range s {
		zzAssume(c > ' ' && c < 0x7f)
	}
	t := zzNewTiff(8+2+3*12+4+6+2+12+4+8, be, 8)
	t.dir(8, 3, 56)
	t.entShort(8, 0, 0x0100, w)
	t.entShort(8, 1, 0x0112, o)
	t.ent(8, 2, 0x0131, 2, 6, 50)
	t.bytes(50, append(append([]byte{}, s...), 0))
	t.dir(56, 1, 0)
	t.entShort(56, 0, 0x1234, 1)
	zzPoolHavoc()
	e, err := zzDecode04(t.b)
	zzAssert(err == nil, "decodes whatever the pools hold")
	zzAssert(e.ImageWidth == w && uint16(e.Orientation) == o, "numeric fields do not depend on earlier calls")
	zzAssert(len(e.Software) == 5 && e.Software[0] == s[0] && e.Software[4] == s[4], "text fields do not depend on earlier calls")
	zzAssert(e.Make == "" && e.Model == "" && e.Artist == "" && e.ISOSpeed == 0 && e.StripOffsets == 0 && e.ImageHeight == 0, "absent fields are zero whatever earlier calls left in the pools")
	zzReached("end")
}

// a truncated / malformed second file must not report values of the first one
func zzC04_malformed() {
	t := zzNewTiff(8+2+12+4+16, false, 8)
	t.dir(8, 1, 0)
	id, typ, cnt, off := zzU16("id"), zzU16("typ"), zzU32("cnt"), zzU32("off")
	zzAssume(id == 0x0131 || id == 0x010e)
	id = uint16(zzConc(uint64(id), 2))
	zzAssume(typ == 2)
	zzAssume(cnt <= 12)
	cnt = uint32(zzConc(uint64(cnt), 13))
	zzAssume(off == 26 || off == 36 || off == 40 || off == 41)
	off = uint32(zzConc(uint64(off), 4))
	t.ent(8, 0, id, 2, cnt, off)
	t.bytes(26, zzBytes("v", 16))
	fresh, _ := zzDecode04(t.b)
	zzPoolHavoc()
	e, _ := zzDecode04(t.b)
	zzAssert(e.Software == fresh.Software && e.ImageDescription == fresh.ImageDescription, "a (possibly truncated) value is the same on pristine pools and after arbitrary earlier calls")
	zzReached("end")
}

// the unbuffered route (Parse on a plain io.ReadSeeker; values are read into the pooled scratch buffer): decode a
// truncated file on pristine pools, then an arbitrary complete "earlier" file, then the truncated file again. The pool
// model hands the recycled buffer back (as sync.Pool does), so the earlier file's bytes are solver variables in it.
func zzC04_unbuffered_N() int { return 2 }
func zzC04_unbuffered() {
	id := []uint16{0x0131, 0x010e}[zzPart()]
	mk := func(cnt uint32, payload []byte) []byte {
		t := zzNewTiff(26+len(payload), false, 8)
		t.dir(8, 1, 0)
		t.ent(8, 0, id, 2, cnt, 26)
		t.bytes(26, payload)
		return t.b
	}
	cnt := zzU32("cnt")
	zzAssume(cnt >= 1 && cnt <= 24)
	cnt = uint32(zzConc(uint64(cnt), 24))
	cut := zzU32("cut")
	zzAssume(cut <= 8)
	cut = uint32(zzConc(uint64(cut), 9))
	trunc := mk(cnt, zzBytes("v", 8)[:cut])
	hist := zzBytes("h", 24)
	for i := 0; i < 23; i++ {
		zzAssume(hist[i] > ' ' && hist[i] < 0x7f)
	}
	hist[23] = 0
	fresh, _ := Parse(zzReaderOf(trunc))
	he, _ := Parse(zzReaderOf(mk(24, hist)))
	zzAssume(len(he.Software) == 23 || len(he.ImageDescription) == 23)
	got, _ := Parse(zzReaderOf(trunc))
	zzAssert(got.Software == fresh.Software && got.ImageDescription == fresh.ImageDescription, "a truncated value reads the same on pristine pools and after an arbitrary earlier file")
	zzReached("end")
}

// history through the pending-tag buffer: decode a target on pristine pools, then an earlier-file stand-in whose two
// out-of-line values stay in the recycled tag buffer, then the target again. The target is a one-entry IFD0 whose
// entry is arbitrary within small classes (DateTime / ImageWidth / Software, ASCII or SHORT, count 0..4 or 20,
// value slot arbitrary) followed by 44 arbitrary bytes, cut after the entries, after the next-IFD pointer or not at all.
func zzC04_history_N() int { return 3 }
func zzC04_history() {
	id := []uint16{0x0132, 0x0100, 0x0131}[zzPart()]
	t := zzNewTiff(8+2+12+4+44, false, 8)
	t.dir(8, 1, 0)
	typ, cnt := zzU16("typ"), zzU32("cnt")
	zzAssume(typ == 2 || typ == 3)
	typ = uint16(zzConc(uint64(typ), 2))
	zzAssume(cnt <= 4 || cnt == 20)
	cnt = uint32(zzConc(uint64(cnt), 6))
	slot := zzBytes("slot", 4)
	zzAssume(slot[1] == 0 && slot[2] == 0 && slot[3] == 0 && (slot[0] == 0 || slot[0] == 26 || slot[0] == 40 || slot[0] == '1'))
	slot[0] = byte(zzConc(uint64(slot[0]), 4))
	slot[1], slot[2], slot[3] = 0, 0, 0
	t.entRaw(8, 0, id, typ, cnt, slot)
	t.bytes(26, zzBytes("v", 44))
	cut := zzU8("cut")
	zzAssume(cut == 22 || cut == 26 || cut == 70)
	target := t.b[:int(zzConc(uint64(cut), 3))]

	h := zzNewTiff(8+2+2*12+4+2+20+8+8, false, 8)
	h.dir(8, 2, 0)
	h.ent(8, 0, 0x0132, 2, 20, 40)
	h.ent(8, 1, 0x010e, 2, 8, 60)
	hd := zzBytes("hd", 14)
	for _, c := range hd {
		zzAssume(c >= '0' && c <= '9')
	}
	h.bytes(40, []byte{hd[0], hd[1], hd[2], hd[3], ':', hd[4], hd[5], ':', hd[6], hd[7], ' ', hd[8], hd[9], ':', hd[10], hd[11], ':', hd[12], hd[13], 0})
	h.bytes(60, []byte("abcdefg\x00"))

	fresh, ef := Parse(zzReaderOf(target))
	_, _ = Parse(zzReaderOf(h.b))
	again, ea := Parse(zzReaderOf(target))
	zzAssert((ef == nil) == (ea == nil), "the same file gives the same success on pristine pools and after an earlier file")
	zzAssert(fresh.Time.modifyDate == again.Time.modifyDate && fresh.ImageWidth == again.ImageWidth && fresh.Software == again.Software && fresh.ImageDescription == again.ImageDescription,
		"the same file gives the same fields on pristine pools and after an earlier file")
	zzReached("end")
}
