package meta

// C16 - value types survive text/JSON round trips; their parsers are total (package meta).

var zzUpperTab = func() (t [256]byte) {
	for i := range t {
		t[i] = byte(i)
		if i >= 'a' && i <= 'f' {
			t[i] = byte(i) - 32
		}
	}
	return
}()

func zzEqBytes(a, b []byte) bool {
	if len(a) != len(b) {
		return false
	}
	eq := true
	for i := range a {
		eq = eq && a[i] == b[i]
	}
	return eq
}

func zzC16_text_MeteringMode() {
	v := MeteringMode(zzU16("v"))
	t1, err := v.MarshalText()
	zzAssert(err == nil, "MeteringMode.MarshalText succeeds")
	var w MeteringMode
	zzAssert(w.UnmarshalText(t1) == nil, "MeteringMode.UnmarshalText accepts its own output")
	if v < 7 || v == 255 {
		zzAssert(w == v, "MeteringMode: every documented member survives the text round trip")
	}
	t2, _ := w.MarshalText()
	zzAssert(zzEqBytes(t1, t2), "MeteringMode: Marshal(Unmarshal(Marshal(v))) == Marshal(v)")
	zzReached("end")
}

func zzC16_json_MeteringMode() {
	v := MeteringMode(zzU16("v"))
	j, err := v.MarshalJSON()
	zzAssert(err == nil, "MeteringMode.MarshalJSON succeeds")
	var w MeteringMode
	uerr := w.UnmarshalJSON(j)
	if v < 7 || v == 255 {
		zzAssert(uerr == nil && w == v, "MeteringMode: every documented member survives the JSON round trip")
	}
	zzReached("end")
}

func zzC16_text_ExposureMode() {
	v := ExposureMode(zzU16("v"))
	t1, err := v.MarshalText()
	zzAssert(err == nil, "ExposureMode.MarshalText succeeds")
	var w ExposureMode
	zzAssert(w.UnmarshalText(t1) == nil, "ExposureMode.UnmarshalText accepts its own output")
	if v <= 2 {
		zzAssert(w == v, "ExposureMode: every documented member survives the text round trip")
	}
	t2, _ := w.MarshalText()
	zzAssert(zzEqBytes(t1, t2), "ExposureMode: Marshal(Unmarshal(Marshal(v))) == Marshal(v)")
	zzReached("end")
}

func zzC16_text_ExposureProgram() {
	v := ExposureProgram(zzU16("v"))
	t1, err := v.MarshalText()
	zzAssert(err == nil, "ExposureProgram.MarshalText succeeds")
	var w ExposureProgram
	zzAssert(w.UnmarshalText(t1) == nil, "ExposureProgram.UnmarshalText accepts its own output")
	if v <= 9 {
		zzAssert(w == v, "ExposureProgram: every documented member survives the text round trip")
	}
	t2, _ := w.MarshalText()
	zzAssert(zzEqBytes(t1, t2), "ExposureProgram: Marshal(Unmarshal(Marshal(v))) == Marshal(v)")
	zzReached("end")
}

// all 2^16 ExposureBias encodings (case split over the value: integer formatting divides by constants)
func zzC16_text_ExposureBias_N() int { return 16 }
func zzC16_text_ExposureBias() {
	x := zzU16("v")
	zzAssume(int(x>>12) == zzPart())
	v := ExposureBias(int16(zzConc(uint64(x), 4096)))
	t1, err := v.MarshalText()
	zzAssert(err == nil, "ExposureBias.MarshalText succeeds")
	var w ExposureBias
	zzAssert(w.UnmarshalText(t1) == nil, "ExposureBias.UnmarshalText accepts its own output")
	zzAssert(w == v, "ExposureBias: every 16-bit encoding survives the text round trip")
	zzReached("end")
}

// NewExposureBias packs numerator and denominator so that the text form shows them (denominators up to 127:
// the low byte is sign-extended by the constructor, larger denominators are outside the documented packing).
func zzC16_new_ExposureBias() {
	n, d := zzI16("n"), zzI16("d")
	zzAssume(n >= -128 && n <= 127 && d >= 0 && d <= 127)
	eb := NewExposureBias(n, d)
	zzAssert(int16(eb)>>8 == n && uint16(eb)&0xff == uint16(d), "NewExposureBias packs numerator<<8 | denominator")
	zzReached("end")
}

// text decoders are total: arbitrary byte strings of every length 0..48 (50 thorough); one harness per decoder
func zzLens() (int, int) {
	p := zzPart()
	lo, hi := p*6, p*6+5
	if p == 8 {
		lo, hi = 48, 48
		if zzTier() == 1 {
			hi = 50
		}
	}
	return lo, hi
}

func zzC16_total_FocalLength_N() int { return 9 }
func zzC16_total_FocalLength() {
	lo, hi := zzLens()
	for n := lo; n <= hi; n++ {
		var fl FocalLength
		_ = fl.UnmarshalText(zzBytes("t", n))
	}
	zzReached("end")
}

func zzC16_total_Aperture_N() int { return 9 }
func zzC16_total_Aperture() {
	lo, hi := zzLens()
	for n := lo; n <= hi; n++ {
		var aa Aperture
		_ = aa.UnmarshalText(zzBytes("t", n))
	}
	zzReached("end")
}

func zzC16_total_ExposureBias_N() int { return 9 }
func zzC16_total_ExposureBias() {
	lo, hi := zzLens()
	for n := lo; n <= hi; n++ {
		var eb ExposureBias
		_ = eb.UnmarshalText(zzBytes("t", n))
	}
	zzReached("end")
}

func zzC16_total_enums_N() int { return 9 }
func zzC16_total_enums() {
	lo, hi := zzLens()
	for n := lo; n <= hi; n++ {
		t := zzBytes("t", n)
		var mm MeteringMode
		_ = mm.UnmarshalText(t)
		var em ExposureMode
		_ = em.UnmarshalText(t)
		var ep ExposureProgram
		_ = ep.UnmarshalText(t)
	}
	zzReached("end")
}

func zzC16_total_MeteringModeJSON_N() int { return 9 }
func zzC16_total_MeteringModeJSON() {
	lo, hi := zzLens()
	for n := lo; n <= hi; n++ {
		var mm MeteringMode
		_ = mm.UnmarshalJSON(zzBytes("t", n))
	}
	zzReached("end")
}

func zzC16_total_aperture_N() int { return 4 }
func zzC16_total_aperture() {
	p := zzPart()
	for n := p * 3; n <= p*3+2; n++ {
		t := zzBytes("t", n)
		var aa Aperture
		_ = aa.ParseString(t)
	}
	zzReached("end")
}

func zzC16_total_uuid() {
	for _, n := range []int{0, 1, 16, 31, 32, 33, 34, 36, 38, 41, 45, 46} {
		t := zzBytes("t", n)
		var u UUID
		_ = u.UnmarshalText(t)
		var u2 UUID
		_ = u2.UnmarshalBinary(t)
	}
	zzReached("end")
}

// FocalLength: the "mm" suffix is stripped before the number is parsed; formatting appends it.
func zzC16_focallength_suffix() {
	n := 1 + int(zzU8("n")%8)
	zzAssume(n >= 1 && n <= 8)
	t := zzBytes("t", 10)
	t[n], t[n+1] = 'm', 'm'
	var a, b FocalLength
	ea := a.UnmarshalText(t[:n+2])
	eb := b.UnmarshalText(t[:n])
	if t[n-1] != 'm' {
		zzAssert((ea == nil) == (eb == nil), "FocalLength: text with and without the mm suffix parse alike (error)")
		if ea == nil {
			zzAssert(zzF32bits(float32(a)) == zzF32bits(float32(b)), "FocalLength: text with and without the mm suffix parse alike (value)")
		}
	}
	zzReached("end")
}

// UUID: canonical, hash-like, braced and urn text forms, and the binary form, for all 2^128 values.
func zzC16_uuid() {
	var u UUID
	copy(u[:], zzBytes("u", 16))
	canon, err := u.MarshalText()
	zzAssert(err == nil && len(canon) == 36, "UUID.MarshalText gives the 36-byte canonical form")
	var w UUID
	zzAssert(w.UnmarshalText(canon) == nil && w == u, "UUID survives the canonical text round trip")
	// hash-like: canonical without dashes
	hl := make([]byte, 0, 32)
	for i, c := range canon {
		if i != 8 && i != 13 && i != 18 && i != 23 {
			hl = append(hl, c)
		}
	}
	var w2 UUID
	zzAssert(w2.UnmarshalText(hl) == nil && w2 == u, "UUID hash-like form decodes to the same value")
	br := append(append([]byte{'{'}, canon...), '}')
	var w3 UUID
	zzAssert(w3.UnmarshalText(br) == nil && w3 == u, "UUID braced form decodes to the same value")
	urn := append([]byte("urn:uuid:"), canon...)
	var w4 UUID
	zzAssert(w4.UnmarshalText(urn) == nil && w4 == u, "UUID urn form decodes to the same value")
	bin, berr := u.MarshalBinary()
	var w5 UUID
	zzAssert(berr == nil && w5.UnmarshalBinary(bin) == nil && w5 == u, "UUID survives the binary round trip")
	// upper-case hex digits are accepted too
	up := make([]byte, 36)
	for i, c := range canon {
		up[i] = zzUpperTab[c]
	}
	var w6 UUID
	zzAssert(w6.UnmarshalText(up) == nil && w6 == u, "UUID upper-case canonical form decodes to the same value")
	zzReached("end")
}
