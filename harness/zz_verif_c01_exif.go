package imagemeta

import "github.com/evanoberholster/imagemeta/exif2"

// C01/exif2 through the public entry points: TIFF skeletons with one fully symbolic IFD entry ("hole"), arbitrary
// next-IFD pointer, arbitrary value window; partitioned by dispatched tag id and byte order. The *_trunc variants
// add every truncation point and terminal error of the stream.

var zzIFD0ids = []uint16{0x010f, 0x0110, 0x013b, 0x8298, 0x0100, 0x0101, 0x0111, 0x0117, 0x0112, 0x0131, 0x010e, 0x0132, 0xc612, 0xc62f, 0x8769, 0x8825, 0x014a, 0}

var zzExifIds = []uint16{0xa433, 0xa434, 0xa435, 0xa430, 0xa431, 0xa002, 0xa003, 0x829a, 0x9202, 0x829d, 0x8822, 0x9204, 0xa402, 0x9207, 0x8827,
	0x9209, 0x920a, 0xa405, 0xa432, 0x9003, 0x9004, 0x9290, 0x9291, 0x9292, 0x9010, 0x9011, 0x9012, 0x927c, 0}

var zzGpsIds = []uint16{0x0005, 0x0001, 0x0003, 0x0006, 0x0002, 0x0004, 0x0007, 0x001d, 0}

var zzIsLetter = func() (t [256]bool) {
	for c := 0; c < 256; c++ {
		t[c] = (c >= 'A' && c <= 'Z') || (c >= 'a' && c <= 'z')
	}
	return
}()

// zzPickID constrains id to the k-th dispatched id, or (last slot) to any id that is not dispatched.
func zzPickID(id uint16, ids []uint16, k int) {
	if ids[k] != 0 {
		zzAssume(id == ids[k])
		return
	}
	for _, x := range ids {
		if x != 0 {
			zzAssume(id != x)
		}
	}
}

// zzHole fills entry i of the directory at diroff with an arbitrary 12-byte entry whose id is constrained by
// (ids, k). To keep buffer lengths and positions concrete on each path the entry is explored in three families
// (selected by fam): 0 = every defined type x every count <= maxCnt, value offset one of {0 (reverse), the in-window offset win, len-2 (the value
// crosses the end of the stream), len+1 (beyond the stream)}; 1 = type in {ASCII, SHORT, LONG, RATIONAL,
// SRATIONAL, UNDEFINED} x count <= maxCnt x every offset <= len+4; 2 = everything else symbolic (undefined types,
// counts above maxCnt, offsets beyond the stream): those reads fail before any byte is interpreted.
func zzHole(t *zzTiff, diroff, i int, ids []uint16, k int, maxCnt, win, fam int) {
	id, typ, cnt, off := zzU16("id"), zzU16("typ"), zzU32("cnt"), zzU32("off")
	zzPickID(id, ids, k)
	if ids[k] != 0 {
		id = ids[k]
	}
	n := len(t.b)
	switch fam {
	case 0:
		if zzTier() == 0 && maxCnt > 12 && (id == 0x010f || id == 0x0110 || id == 0x013b || id == 0x8298 || id == 0x0131 || id == 0x010e || id == 0xc62f ||
			id == 0xa433 || id == 0xa434 || id == 0xa435 || id == 0xa430 || id == 0xa431) {
			maxCnt = 12 // quick tier: string-valued tags (one fork per trimmed byte) with values up to 12 bytes
		}
		if id == 0x9290 || id == 0x9291 || id == 0x9292 {
			maxCnt = 7 + 3*zzTier() // digit parser forks once per byte
		}
		zzAssume(typ <= 13 && int(cnt) <= maxCnt)
		zzAssume(off == 0 || int(off) == win || int(off) == n-2 || int(off) == n+1)
		typ = uint16(zzConc(uint64(typ), 14))
		cnt = uint32(zzConc(uint64(cnt), maxCnt+1))
		off = uint32(zzConc(uint64(off), 8))
	case 1: // thorough tier only
		zzAssume(typ == 2 || typ == 3 || typ == 4 || typ == 5 || typ == 10 || typ == 7)
		zzAssume(int(cnt) <= maxCnt && int(off) <= n+4)
		typ = uint16(zzConc(uint64(typ), 6))
		cnt = uint32(zzConc(uint64(cnt), maxCnt+1))
		off = uint32(zzConc(uint64(off), n+5))
	case 3: // truncation harnesses: a small family (the truncation point is the variable of interest)
		zzAssume(typ == 2 || typ == 3 || typ == 4 || typ == 5 || typ == 7)
		zzAssume(cnt == 0 || cnt == 1 || cnt == 3 || cnt == 5 || cnt == 8 || cnt == 20)
		zzAssume(int(off) == win || off == 0)
		typ = uint16(zzConc(uint64(typ), 5))
		cnt = uint32(zzConc(uint64(cnt), 6))
		off = uint32(zzConc(uint64(off), 2))
	default:
		// the rest, by representatives: undefined / pseudo types, counts above maxCnt, offsets beyond the stream
		zzAssume(typ <= 14 || typ == 0xf0 || typ == 0xf1 || typ == 0xff || typ == 0x100 || typ == 0xffff)
		zzAssume(int(cnt) <= 2 || int(cnt) == maxCnt+1 || cnt == 64 || cnt == 4097 || cnt == 0x0fffffff || cnt == 0x20000001 || cnt == 0xffffffff)
		zzAssume(off == 0 || int(off) == win || int(off) == n+5 || off == 0x7fffffff || off == 0x80000000 || off == 0xffffffff)
		zzAssume(typ > 13 || int(cnt) > maxCnt || int(off) > n+4)
		typ = uint16(zzConc(uint64(typ), 24))
		cnt = uint32(zzConc(uint64(cnt), 16))
		off = uint32(zzConc(uint64(off), 8))
	}
	t.ent(diroff, i, id, typ, cnt, off)
}

// zzQuickSkip: the quick tier explores big-endian skeletons only for a few tag ids (the byte order only affects the
// entry decoder, which C07 covers for all entries); the thorough tier explores both orders for every id.
func zzQuickSkip(be bool, k, fam int) bool {
	return zzTier() == 0 && ((be && k%5 != 0) || fam == 1)
}

// zzIfd0Hole: header, IFD0 = one hole entry + arbitrary next pointer, 28 arbitrary bytes.
func zzIfd0Hole(be bool, k, fam int) []byte {
	t := zzNewTiff(8+2+12+4+28, be, 8)
	t.dir(8, 1, 0)
	v := zzBytes("v", 28)
	if k == 0 {
		// Make: values that are keys of the 60-entry make alias table only select a canonical spelling; cut them off
		// (no letters in the value window) so that the alias lookup does not multiply the paths
		for _, c := range v {
			zzAssume(!zzIsLetter[c])
		}
	}
	if k == 14 || k == 15 || k == 16 {
		// links (ExifTag, GPSTag, SubIFDs): the directory they lead to is the value window; keep it to at most one entry
		// of a non-dispatched id (the sub-directories have their own hole harnesses)
		zzAssume(v[0] <= 1 && v[1] <= 1 && v[2] == 0xee && v[3] == 0xee)
	}
	t.bytes(26, v)
	zzHole(t, 8, 0, zzIFD0ids, k, 26, 26, fam)
	return t.b
}

func zzC01_exif_ifd0_N() int { return 108 }
func zzC01_exif_ifd0() {
	p := zzPart()
	fam := p / 36
	p = p % 36
	if zzQuickSkip(p%2 == 1, p/2, fam) {
		zzReached("end")
		return
	}
	r := zzReaderOf(zzIfd0Hole(p%2 == 1, p/2, fam))
	_, _ = DecodeTiff(r)
	zzAssert(r.Requested() <= 4*r.Len()+65536, "bytes requested from the reader stay within 4*len+64KiB")
	zzReached("end")
}

// truncation: quick tier covers the id classes {Make, DateTime, Orientation, ExifTag, SubIFDs, other}, thorough all
func zzC01_exif_ifd0_trunc_N() int { return 36 }
func zzC01_exif_ifd0_trunc() {
	p := zzPart()
	k := p / 2
	if zzTier() == 0 && !(p%2 == 0 && (k == 0 || k == 11 || k == 8 || k == 14 || k == 16 || k == 17)) {
		zzReached("end")
		return
	}
	r := zzReaderTrunc(zzIfd0Hole(p%2 == 1, k, 3), "t")
	_, _ = DecodeTiff(r)
	zzReached("end")
}

// zzSubHole: header, IFD0 = {link tag -> sub-directory at 26}, sub-directory = one hole entry, 26 arbitrary bytes.
func zzSubHole(be bool, link uint16, ids []uint16, k, fam int) []byte {
	t := zzNewTiff(8+2+12+4+2+12+4+26, be, 8)
	t.dir(8, 1, 0)
	t.ent(8, 0, link, 4, 1, 26)
	t.dir(26, 1, 0)
	zzHole(t, 26, 0, ids, k, 24, 44, fam)
	t.bytes(44, zzBytes("v", 26))
	return t.b
}

func zzC01_exif_exififd_N() int { return 174 }
func zzC01_exif_exififd() {
	p := zzPart()
	fam := p / 58
	p = p % 58
	if zzQuickSkip(p%2 == 1, p/2, fam) {
		zzReached("end")
		return
	}
	r := zzReaderOf(zzSubHole(p%2 == 1, 0x8769, zzExifIds, p/2, fam))
	_, _ = DecodeTiff(r)
	zzReached("end")
}

func zzC01_exif_gpsifd_N() int { return 54 }
func zzC01_exif_gpsifd() {
	p := zzPart()
	fam := p / 18
	p = p % 18
	if zzQuickSkip(p%2 == 1, p/2, fam) {
		zzReached("end")
		return
	}
	r := zzReaderOf(zzSubHole(p%2 == 1, 0x8825, zzGpsIds, p/2, fam))
	_, _ = DecodeTiff(r)
	zzReached("end")
}

func zzC01_exif_sub_trunc_N() int { return 4 }
func zzC01_exif_sub_trunc() {
	p := zzPart()
	var b []byte
	switch p {
	case 0:
		b = zzSubHole(false, 0x8769, zzExifIds, 19, 3) // DateTimeOriginal
	case 1:
		b = zzSubHole(true, 0x8769, zzExifIds, len(zzExifIds)-1, 3)
	case 2:
		b = zzSubHole(false, 0x8825, zzGpsIds, 4, 3) // GPSLatitude
	default:
		b = zzSubHole(true, 0x8825, zzGpsIds, 7, 3) // GPSDateStamp
	}
	r := zzReaderTrunc(b, "t")
	_, _ = DecodeTiff(r)
	zzReached("end")
}

// arbitrary first-directory offset (case split 0..N+4) over a stream whose body is arbitrary, entries restricted to
// ids that are not dispatched (the dispatch is covered above); every truncation.
func zzC01_exif_ifdoff_N() int { return 2 }
func zzC01_exif_ifdoff() {
	be := zzPart() == 1
	const N = 8 + 30
	t := zzNewTiff(N, be, 0)
	off := zzU32("off")
	zzAssume(off <= N+4)
	off = uint32(zzConc(uint64(off), N+8))
	t.put32(4, off)
	body := zzBytes("v", N-8)
	t.bytes(8, body)
	// entry count at most 2 and ids not dispatched, wherever the directory lands
	if int(off)+2 <= N && off >= 8 {
		zzAssume(t.get16(t.b[off:off+2]) <= 1)
		for i := 0; i < 1; i++ {
			e := int(off) + 2 + 12*i
			if e+2 <= N {
				zzPickID(t.get16(t.b[e:e+2]), zzIFD0ids, len(zzIFD0ids)-1)
			}
		}
	}
	r := zzReaderTrunc(t.b, "t")
	_, _ = DecodeTiff(r)
	zzReached("end")
}

// next-IFD pointer: IFD0 = one benign SHORT entry, arbitrary next pointer (case split within the stream, symbolic
// beyond), the rest of the stream arbitrary with non-dispatched ids wherever IFD1 lands.
func zzC01_exif_next_N() int { return 2 }
func zzC01_exif_next() {
	be := zzPart() == 1
	const N = 8 + 2 + 12 + 4 + 30
	t := zzNewTiff(N, be, 8)
	nx := zzU32("nx")
	if nx <= N+4 {
		nx = uint32(zzConc(uint64(nx), N+5))
	}
	t.bytes(26, zzBytes("v", 30))
	t.dir(8, 1, nx)
	t.entShort(8, 0, 0x0112, zzU16("o"))
	if int(nx)+2 <= N && nx >= 26 {
		zzAssume(t.get16(t.b[nx:nx+2]) <= 2)
		for i := 0; i < 2; i++ {
			e := int(nx) + 2 + 12*i
			if e+2 <= N {
				zzPickID(t.get16(t.b[e:e+2]), zzIFD0ids, len(zzIFD0ids)-1)
			}
		}
	}
	r := zzReaderTrunc(t.b, "t")
	_, _ = DecodeTiff(r)
	zzReached("end")
}

// SubIFDs: IFD0 = {SubIFDs LONG count c -> offsets}, each sub-directory one hole entry of a non-dispatched id.
func zzC01_exif_subifds() {
	for _, be := range []bool{false, true} {
		t := zzNewTiff(8+2+12+4+8+2+12+4+16, be, 8)
		t.dir(8, 1, 0)
		cnt := zzU32("cnt")
		zzAssume(cnt <= 9)
		t.ent(8, 0, 0x014a, 4, uint32(zzConc(uint64(cnt), 16)), 26)
		for j := 0; j < 2; j++ { // two sub-directory offsets from the classes {the real directory, 0, itself, end, far}
			o := zzU32([]string{"o0", "o1"}[j])
			zzAssume(o == 34 || o == 0 || o == 26 || o == 68 || o == 0xffffffff)
			t.put32(26+4*j, uint32(zzConc(uint64(o), 5)))
		}
		t.dir(34, 1, 0)
		zzHole(t, 34, 0, zzIFD0ids, len(zzIFD0ids)-1, 8, 52, 0)
		t.bytes(48, zzBytes("nx", 4))
		t.bytes(52, zzBytes("v", 16))
		r := zzReaderOf(t.b)
		_, _ = DecodeTiff(r)
	}
	zzReached("end")
}

// MakerNote: IFD0 = {Make "Canon"/"Nikon", ExifTag}, ExifIFD = {MakerNote hole-sized UNDEFINED}, maker-note body arbitrary;
// through DecodeTiff (buffered reads) and exif2.Parse (reads into the pooled scratch buffer).
func zzC01_exif_makernote_N() int { return 6 }
func zzC01_exif_makernote() {
	p := zzPart()
	be := p%2 == 1
	mk := "Canon\x00"
	if p/2 >= 1 { // parts 2,3: Nikon through DecodeTiff; parts 4,5: Nikon through exif2.Parse
		mk = "Nikon\x00"
	}
	t := zzNewTiff(8+2+24+4+6+2+12+4+40, be, 8)
	t.dir(8, 2, 0)
	t.ent(8, 0, 0x010f, 2, 6, 38)
	t.ent(8, 1, 0x8769, 4, 1, 44)
	t.bytes(38, []byte(mk))
	t.dir(44, 1, 0)
	cnt := zzU32("cnt")
	t.ent(44, 0, 0x927c, 7, cnt, 62)
	t.bytes(62, zzBytes("m", 40))
	r := zzReaderTrunc(t.b, "t")
	if p/4 == 0 {
		_, _ = DecodeTiff(r)
	} else {
		_, _ = exif2.Parse(r)
	}
	zzReached("end")
}

// a directory with n out-of-line values (n around the capacity of the pending-tag buffer, 84): ids arbitrary per entry
// class, offsets ascending, every truncation
func zzC01_exif_fulldir_N() int { return 12 }
func zzC01_exif_fulldir() {
	n := []int{82, 83, 84, 85, 100, 128}[zzPart()/2]
	be := zzPart()%2 == 1
	vo := 8 + 2 + 12*n + 4
	t := zzNewTiff(vo+8*n+8, be, 8)
	t.dir(8, n, 0)
	typ := zzU16("typ")
	zzAssume(typ == 2 || typ == 7 || typ == 5)
	typ = uint16(zzConc(uint64(typ), 3))
	for i := 0; i < n; i++ {
		t.ent(8, i, 0x9000+uint16(i), typ, 8/uint32(map[uint16]int{2: 1, 7: 1, 5: 8}[typ]), uint32(vo+8*i))
		t.bytes(vo+8*i, []byte("abcdefg\x00"))
	}
	t.bytes(vo, zzBytes("v", 16))
	_, _ = DecodeTiff(zzReaderOf(t.b))
	zzReached("end")
}

// the other containers: the same IFD0 hole skeleton inside a JPEG APP1 segment and a PNG eXIf chunk, and through Decode.
func zzC01_exif_jpeg_N() int { return 36 }
func zzC01_exif_jpeg() {
	p := zzPart()
	k := p / 2
	if zzTier() == 0 && !(k == 0 || k == 11 || k == 8 || k == 14 || k == 17) {
		zzReached("end")
		return
	}
	tb := zzIfd0Hole(p%2 == 1, k, 3)
	b := make([]byte, 0, 200)
	b = append(b, 0xff, 0xd8, 0xff, 0xe1)
	sz := zzU16("sz") // declared APP1 size arbitrary
	zzAssume(sz <= 8 || int(sz) == len(tb)+8 || int(sz) == len(tb)+7 || int(sz) == len(tb)+9 || sz == 0xffff)
	szc := uint16(zzConc(uint64(sz), 16))
	b = append(b, byte(szc>>8), byte(szc))
	b = append(b, 'E', 'x', 'i', 'f', 0, 0)
	b = append(b, tb...)
	b = append(b, 0xff, 0xdb, 0, 2)
	b = append(b, make([]byte, 70)...)
	_, _ = DecodeJPEG(zzReaderOf(b))
	_, _ = Decode(zzReaderOf(b))
	zzReached("end")
}

func zzC01_exif_png_N() int { return 36 }
func zzC01_exif_png() {
	p := zzPart()
	k := p / 2
	if zzTier() == 0 && !(k == 0 || k == 11 || k == 8 || k == 14 || k == 17) {
		zzReached("end")
		return
	}
	tb := zzIfd0Hole(p%2 == 1, k, 3)
	b := make([]byte, 0, 100)
	b = append(b, "\x89PNG\r\n\x1a\n"...)
	ln := zzBytes("ln", 4) // declared chunk length arbitrary
	b = append(b, ln...)
	b = append(b, 'e', 'X', 'I', 'f')
	b = append(b, tb...)
	_, _ = DecodePng(zzReaderOf(b))
	zzReached("end")
}

// values that end exactly at the end of the 4096-byte read buffer: the file goes on, but a slice returned by a
// look-ahead of exactly the declared value size has no spare capacity there, so a parser that slices past the size it
// asked for panics. IFD0 -> ExifIFD / GPS IFD at 3990 with one entry of the k-th dispatched id, type in the value
// classes, count 0..4, the value placed so that it ends at byte 4096; 64 arbitrary bytes around the boundary.
func zzBufEnd(be bool, link uint16, ids []uint16, k int) []byte {
	const dir = 3990
	t := zzNewTiff(4096+40, be, 8)
	t.dir(8, 1, 0)
	t.ent(8, 0, link, 4, 1, dir)
	t.dir(dir, 1, 0)
	t.bytes(4096-56, zzBytes("v", 64))
	id, typ, cnt := zzU16("id"), zzU16("typ"), zzU32("cnt")
	zzPickID(id, ids, k)
	if ids[k] != 0 {
		id = ids[k]
	}
	zzAssume(typ == 1 || typ == 2 || typ == 3 || typ == 4 || typ == 5 || typ == 7 || typ == 10)
	typ = uint16(zzConc(uint64(typ), 7))
	zzAssume(cnt <= 4)
	cnt = uint32(zzConc(uint64(cnt), 5))
	size := uint32([]int{0, 1, 1, 2, 4, 8, 1, 1, 2, 4, 8, 4, 8, 4}[typ]) * cnt
	off := uint32(4096) - size
	if size <= 4 {
		off = 0 // embedded: the slot is arbitrary
		off = zzU32("slot")
	}
	t.ent(dir, 0, id, typ, cnt, off)
	return t.b
}

func zzC01_exif_bufend_N() int { return 76 }
func zzC01_exif_bufend() {
	p := zzPart()
	be := p%2 == 1
	p /= 2
	var b []byte
	if p < len(zzExifIds) {
		b = zzBufEnd(be, 0x8769, zzExifIds, p)
	} else {
		b = zzBufEnd(be, 0x8825, zzGpsIds, p-len(zzExifIds))
	}
	_, _ = DecodeTiff(zzReaderOf(b))
	zzReached("end")
}
