package png

// C08/png: the same bytes delivered in one piece and in arbitrary legal short reads give the same result.
func zzC08_png() {
	b := zzBytes("f", 8+8+8)
	copy(b, "\x89PNG\r\n\x1a\n")
	h1, e1 := ScanPngHeader(zzReaderOf(b))
	h2, e2 := ScanPngHeader(zzChunkedReaderOf(b, "c"))
	zzAssert((e1 == nil) == (e2 == nil), "ScanPngHeader: same success whatever the read sizes")
	zzAssert(h1 == h2, "ScanPngHeader: same header whatever the read sizes")
	zzReached("end")
}
