package png

// C01/png: arbitrary stream up to 48 bytes (signature + up to 5 chunk headers), every truncation and terminal error.
func zzC01_png_free() {
	r := zzStream("d", 48)
	_, _ = ScanPngHeader(r)
	zzAssert(r.Requested() <= 4*r.Len()+65536, "bytes requested from the reader stay within 4*len+64KiB")
	zzReached("end")
}

// C01/png: valid signature, then arbitrary chunk headers.
func zzC01_png_sig() {
	b := zzBytes("f", 8+40)
	copy(b, "\x89PNG\r\n\x1a\n")
	r := zzReaderTrunc(b, "t")
	_, _ = ScanPngHeader(r)
	zzAssert(r.Requested() <= 4*r.Len()+65536, "bytes requested from the reader stay within 4*len+64KiB")
	zzReached("end")
}
