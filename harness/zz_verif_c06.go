package imagemeta

import "github.com/evanoberholster/imagemeta/exif2"

// C06 - the container does not change the metadata: the same Exif payload in a bare TIFF file, a JPEG APP1 segment, a
// PNG eXIf chunk and the CMT1 box of a CR3 file yields the same fields (only the image type differs).

func zzC06_containers_N() int { return 14 }
func zzC06_containers() {
	be := zzPart()%2 == 1
	p := zzPayload(be)
	// bare TIFF (padded so that the 32-byte header search succeeds)
	ref, eref := DecodeTiff(zzReaderOf(append(append([]byte{}, p...), make([]byte, 8)...)))
	zzAssert(eref == nil, "the bare TIFF file decodes")
	zzAssert(ref.Orientation != 0 || true, "reference decoded")
	switch zzPart() / 2 {
	case 0: // JPEG APP1, preceded by an APP0 segment and followed by DQT and image data
		b := []byte{0xff, 0xd8, 0xff, 0xe0, 0, 7, 'J', 'F', 'I', 'F', 0}
		b = append(b, 0xff, 0xe1, 0, byte(2+6+len(p)))
		b = append(b, "Exif\x00\x00"...)
		b = append(b, p...)
		b = append(b, 0xff, 0xdb, 0, 2)
		b = append(b, make([]byte, 70)...)
		e, err := DecodeJPEG(zzReaderOf(b))
		zzAssert(err == nil && zzSameFields(e, ref), "JPEG APP1: same fields as the bare TIFF payload")
		e2, err2 := Decode(zzReaderOf(b))
		zzAssert(err2 == nil && zzSameFields(e2, ref), "Decode (JPEG): same fields as the bare TIFF payload")
	case 1: // PNG eXIf chunk after an IHDR-like chunk
		b := []byte("\x89PNG\r\n\x1a\n")
		b = append(b, 0, 0, 0, 4, 'z', 'z', 'z', 'z', 1, 2, 3, 4, 9, 9, 9, 9)
		b = append(b, 0, 0, 0, byte(len(p)), 'e', 'X', 'I', 'f')
		b = append(b, p...)
		b = append(b, 0, 0, 0, 0)
		e, err := DecodePng(zzReaderOf(b))
		zzAssert(err == nil && zzSameFields(e, ref), "PNG eXIf: same fields as the bare TIFF payload")
	case 2: // CR3: ftyp, moov{uuid{CMT1{payload}}}, free
		n := len(p)
		b := []byte(zzFtypCR3)
		b = append(b, 0, 0, 0, byte(8+8+16+8+n), 'm', 'o', 'o', 'v')
		b = append(b, 0, 0, 0, byte(8+16+8+n), 'u', 'u', 'i', 'd')
		b = append(b, "\x85\xc0\xb6\x87\x82\x0f\x11\xe0\x81\x11\xf4\xce\x46\x2b\x6a\x48"...)
		b = append(b, 0, 0, 0, byte(8+n), 'C', 'M', 'T', '1')
		b = append(b, p...)
		b = append(b, 0, 0, 0, 8, 'f', 'r', 'e', 'e')
		e, _ := DecodeCR3(zzReaderOf(b))
		zzAssert(zzSameFields(e, ref), "CR3 CMT1: same fields as the bare TIFF payload")
	default: // HEIF-branded file: ftyp(heic), mdat with k = 0..3 arbitrary bytes before the payload (located by the TIFF header scan)
		k := zzPart()/2 - 3
		b := []byte("\x00\x00\x00\x18ftypheic\x00\x00\x00\x00mif1heic")
		b = append(b, 0, 0, 0, byte(8+k+len(p)+40), 'm', 'd', 'a', 't')
		pad := zzBytes("pad", 3)
		b = append(b, pad[:k]...)
		b = append(b, p...)
		b = append(b, make([]byte, 40)...)
		// no TIFF signature may start before the payload (it would legitimately be found first)
		for i := 24; i < 32+k; i++ {
			zzAssume(!((b[i] == 'I' && b[i+1] == 'I' && b[i+2] == 0x2a && b[i+3] == 0) || (b[i] == 'M' && b[i+1] == 'M' && b[i+2] == 0 && b[i+3] == 0x2a)))
		}
		e, err := Decode(zzReaderOf(b))
		zzAssert(err == nil && zzSameFields(e, ref), "HEIF (TIFF header located by scanning): same fields as the bare TIFF payload")
		e2, err2 := DecodeHeif(zzReaderOf(b))
		zzAssert(err2 == nil && zzSameFields(e2, ref), "DecodeHeif: same fields as the bare TIFF payload")
	}
	zzReached("end")
}

// a long out-of-line value (ImageDescription of 1100 bytes: beyond the directory reader's 1024-byte scratch buffer,
// within the 4096-byte buffered window) decodes alike from every container
func zzBE32(v int) []byte { return []byte{byte(v >> 24), byte(v >> 16), byte(v >> 8), byte(v)} }

func zzC06_big_N() int { return 6 }
func zzC06_big() {
	be := zzPart()%2 == 1
	const n = 1100
	t := zzNewTiff(8+2+12+4+n+8, be, 8)
	t.dir(8, 1, 0)
	t.ent(8, 0, 0x010e, 2, n, 26)
	v := make([]byte, n)
	for i := range v {
		v[i] = 'a' + byte(i%23)
	}
	e := zzBytes("s", 4)
	for _, c := range e {
		zzAssume(c > ' ' && c < 0x7f)
	}
	v[0], v[1], v[n-3], v[n-2], v[n-1] = e[0], e[1], e[2], e[3], 0
	t.bytes(26, v)
	p := t.b
	ref, eref := DecodeTiff(zzReaderOf(p))
	zzAssert(eref == nil && len(ref.ImageDescription) == n-1 && ref.ImageDescription[0] == e[0] && ref.ImageDescription[n-2] == e[3], "the bare TIFF file reports the long value")
	var x exif2.Exif
	var err error
	switch zzPart() / 2 {
	case 0:
		b := []byte{0xff, 0xd8, 0xff, 0xe2, 0xff, 0xff} // a full-size APP2 segment (length field 0xFFFF) comes first
		seg := make([]byte, 0xffff-2)
		copy(seg, []byte{0xff, 0xdb, 0x00, 0x02}) // marker-like bytes (DQT headers) all through the skipped payload
		for n := 4; n < len(seg); n *= 2 {
			copy(seg[n:], seg[:n])
		}
		b = append(b, seg...)
		b = append(b, 0xff, 0xe1, byte((2+6+len(p))>>8), byte(2+6+len(p)))
		b = append(b, "Exif\x00\x00"...)
		b = append(b, p...)
		b = append(b, 0xff, 0xdb, 0, 2)
		b = append(b, make([]byte, 70)...)
		x, err = DecodeJPEG(zzReaderOf(b))
	case 1:
		b := []byte("\x89PNG\r\n\x1a\n")
		b = append(b, zzBE32(len(p))...)
		b = append(b, 'e', 'X', 'I', 'f')
		b = append(b, p...)
		b = append(b, 0, 0, 0, 0)
		x, err = DecodePng(zzReaderOf(b))
	default:
		b := []byte(zzFtypCR3)
		b = append(b, zzBE32(8+8+16+8+len(p))...)
		b = append(b, 'm', 'o', 'o', 'v')
		b = append(b, zzBE32(8+16+8+len(p))...)
		b = append(b, 'u', 'u', 'i', 'd')
		b = append(b, "\x85\xc0\xb6\x87\x82\x0f\x11\xe0\x81\x11\xf4\xce\x46\x2b\x6a\x48"...)
		b = append(b, zzBE32(8+len(p))...)
		b = append(b, 'C', 'M', 'T', '1')
		b = append(b, p...)
		b = append(b, 0, 0, 0, 8, 'f', 'r', 'e', 'e')
		x, _ = DecodeCR3(zzReaderOf(b)) // (DecodeCR3 reports the end of the file after the last box as an error)
	}
	zzAssert(err == nil && x.ImageDescription == ref.ImageDescription, "a long text value decodes alike from every container")
	zzReached("end")
}

// a payload whose first directory does not follow the TIFF header directly (offset 16, 8 arbitrary bytes in between)
// decodes alike from every container
func zzC06_ifdoff_N() int { return 6 }
func zzC06_ifdoff() {
	be := zzPart()%2 == 1
	t := zzNewTiff(16+2+2*12+4+8, be, 16)
	t.bytes(8, zzBytes("gap", 8))
	t.dir(16, 2, 0)
	t.entShort(16, 0, 0x0100, zzU16("w"))
	t.entShort(16, 1, 0x0112, zzU16("o"))
	p := t.b
	// the gap must not look like a TIFF signature (it would legitimately be found first by the header search)
	ref, eref := DecodeTiff(zzReaderOf(p))
	zzAssert(eref == nil, "the bare TIFF file decodes")
	var x exif2.Exif
	var err error
	switch zzPart() / 2 {
	case 0:
		b := []byte{0xff, 0xd8, 0xff, 0xe1, 0, byte(2 + 6 + len(p))}
		b = append(b, "Exif\x00\x00"...)
		b = append(b, p...)
		b = append(b, 0xff, 0xdb, 0, 2)
		b = append(b, make([]byte, 70)...)
		x, err = DecodeJPEG(zzReaderOf(b))
	case 1:
		b := []byte("\x89PNG\r\n\x1a\n")
		b = append(b, zzBE32(len(p))...)
		b = append(b, 'e', 'X', 'I', 'f')
		b = append(b, p...)
		b = append(b, 0, 0, 0, 0)
		x, err = DecodePng(zzReaderOf(b))
	default:
		b := []byte(zzFtypCR3)
		b = append(b, zzBE32(8+8+16+8+len(p))...)
		b = append(b, 'm', 'o', 'o', 'v')
		b = append(b, zzBE32(8+16+8+len(p))...)
		b = append(b, 'u', 'u', 'i', 'd')
		b = append(b, "\x85\xc0\xb6\x87\x82\x0f\x11\xe0\x81\x11\xf4\xce\x46\x2b\x6a\x48"...)
		b = append(b, zzBE32(8+len(p))...)
		b = append(b, 'C', 'M', 'T', '1')
		b = append(b, p...)
		b = append(b, 0, 0, 0, 8, 'f', 'r', 'e', 'e')
		x, _ = DecodeCR3(zzReaderOf(b))
	}
	zzAssert(err == nil && x.ImageWidth == ref.ImageWidth && x.Orientation == ref.Orientation, "a payload whose first directory is at offset 16 decodes alike from every container")
	zzReached("end")
}

// a CR3 file with a free box between ftyp and moov (legal ISOBMFF padding): the metadata is the same as without it
func zzC06_cr3free_N() int { return 2 }
func zzC06_cr3free() {
	p := zzPayload(false)
	ref, eref := DecodeTiff(zzReaderOf(append(append([]byte{}, p...), make([]byte, 8)...)))
	zzAssert(eref == nil, "the bare TIFF file decodes")
	n := len(p)
	b := []byte(zzFtypCR3)
	b = append(b, 0, 0, 0, 16, 'f', 'r', 'e', 'e', 1, 2, 3, 4, 5, 6, 7, 8)
	b = append(b, 0, 0, 0, byte(8+8+16+8+n), 'm', 'o', 'o', 'v')
	b = append(b, 0, 0, 0, byte(8+16+8+n), 'u', 'u', 'i', 'd')
	b = append(b, "\x85\xc0\xb6\x87\x82\x0f\x11\xe0\x81\x11\xf4\xce\x46\x2b\x6a\x48"...)
	b = append(b, 0, 0, 0, byte(8+n), 'C', 'M', 'T', '1')
	b = append(b, p...)
	b = append(b, 0, 0, 0, 16, 'f', 'r', 'e', 'e', 1, 2, 3, 4, 5, 6, 7, 8)
	var x exif2.Exif
	if zzPart() == 0 {
		x, _ = DecodeCR3(zzReaderOf(b))
		zzAssert(zzSameFields(x, ref), "DecodeCR3: a free box before moov does not change the metadata")
	} else {
		x, _ = Decode(zzReaderOf(b))
		zzAssert(zzSameFields(x, ref), "Decode (CR3): a free box before moov does not change the metadata")
	}
	zzReached("end")
}
