package imagemeta

// C14 - memory allocated by a decode is bounded by the input size, not by its contents.
// The engine counts every allocation (make, append growth, heap objects, string conversions, pool New) in a ghost
// counter and flags any make() whose size can exceed 8 MiB under the path condition.

func zzPut32(b []byte, off int, v uint32) {
	b[off], b[off+1], b[off+2], b[off+3] = byte(v>>24), byte(v>>16), byte(v>>8), byte(v)
}

const zzPrevUUID = "\xea\xf4\x2b\x5e\x1c\x98\x4b\x88\xb9\xfb\xb7\xdc\x40\x6e\x4d\x16"
const zzXpacketUUID = "\xbe\x7a\xcf\xcb\x97\xa9\x42\xe8\x9c\x71\x99\x94\x91\xe3\xaf\xac"

// CR3 preview: ftyp, empty moov, xpacket uuid, preview uuid -> PRVW whose 24-byte header (incl. the JPEG size field) and
// 16 payload bytes are arbitrary.
func zzC14_preview() {
	b := make([]byte, 0, 200)
	b = append(b, zzFtypCR3...)
	b = append(b, 0, 0, 0, 8, 'm', 'o', 'o', 'v')
	b = append(b, 0, 0, 0, 28, 'u', 'u', 'i', 'd')
	b = append(b, zzXpacketUUID...)
	b = append(b, 'x', 'm', 'p', '!')
	start := len(b)
	b = append(b, 0, 0, 0, byte(8+16+8+24+16), 'u', 'u', 'i', 'd')
	b = append(b, zzPrevUUID...)
	b = append(b, 0, 0, 0, 0, 0, 0, 0, 1)
	hdr := zzBytes("h", 24)
	hdr[0], hdr[1], hdr[2], hdr[3] = 0, 0, 0, 24+16
	hdr[4], hdr[5], hdr[6], hdr[7] = 'P', 'R', 'V', 'W'
	b = append(b, hdr...)
	b = append(b, zzBytes("p", 16)...)
	_ = start
	n0 := zzAllocated()
	_, _ = PreviewCR3(zzReaderOf(b))
	zzAssert(zzAllocated()-n0 <= 4<<20+16*len(b), "bytes allocated stay within 4 MiB + 16*len(input)")
	zzReached("end")
}

// Exif: counts and sizes of an arbitrary entry cannot inflate allocations (strings are made from bytes actually read)
func zzC14_exif_N() int { return 4 }
func zzC14_exif() {
	k := []int{0, 10, 11, 17}[zzPart()] // Make, ImageDescription, DateTime, other
	t := zzNewTiff(8+2+12+4+28, false, 8)
	t.dir(8, 1, 0)
	t.bytes(26, zzBytes("v", 28))
	typ, cnt, off := zzU16("typ"), zzU32("cnt"), zzU32("off")
	id := []uint16{0x010f, 0x0110, 0x013b, 0x8298, 0x0100, 0x0101, 0x0111, 0x0117, 0x0112, 0x0131, 0x010e, 0x0132, 0xc612, 0xc62f, 0x8769, 0x8825, 0x014a, 0x1234}[k]
	zzAssume(typ == 2 || typ == 7)
	typ = uint16(zzConc(uint64(typ), 2))
	zzAssume(cnt <= 30 || cnt == 1024 || cnt == 1025 || cnt == 4097 || cnt == 1<<20 || cnt == 1<<31 || cnt == 0xffffffff)
	cnt = uint32(zzConc(uint64(cnt), 40))
	zzAssume(off == 26 || off == 0)
	off = uint32(zzConc(uint64(off), 2))
	t.ent(8, 0, id, typ, cnt, off)
	n0 := zzAllocated()
	_, _ = DecodeTiff(zzReaderOf(t.b))
	zzAssert(zzAllocated()-n0 <= 4<<20+16*len(t.b), "bytes allocated stay within 4 MiB + 16*len(input)")
	zzReached("end")
}

// HEIF item locations: the 16-bit iloc count (of each of three iloc boxes in one meta box) sizes a slice capacity
func zzC14_iloc() {
	b := make([]byte, 0, 160)
	b = append(b, "\x00\x00\x00\x18ftypavif\x00\x00\x00\x00avifmif1"...)
	b = append(b, 0, 0, 0, 12+3*(8+8)+12, 'm', 'e', 't', 'a', 0, 0, 0, 0)
	for k := 0; k < 3; k++ {
		last := 0
		if k == 2 {
			last = 12
		}
		b = append(b, 0, 0, 0, byte(8+8+last), 'i', 'l', 'o', 'c')
		h := zzBytes([]string{"h0", "h1", "h2"}[k], 8)
		zzAssume(h[0] <= 1)
		h[0] = byte(zzConc(uint64(h[0]), 2))
		h[4], h[5] = 0x44, 0
		b = append(b, h...)
	}
	// entries; every extent count (version 0: bytes 4..5 and 10..11, version 1: bytes 6..7) is kept <= 2: the extent
	// loop runs count times
	e := zzBytes("e", 12)
	zzAssume(e[4] == 0 && e[5] <= 2 && e[6] == 0 && e[7] <= 2 && e[10] == 0 && e[11] <= 2)
	e[4], e[6], e[10] = 0, 0, 0
	b = append(b, e...)
	n0 := zzAllocated()
	_, _ = Decode(zzReaderOf(b))
	zzAssert(zzAllocated()-n0 <= 4<<20+16*len(b), "bytes allocated stay within 4 MiB + 16*len(input)")
	zzReached("end")
}
