package transforms32

import "image"

// C20 - YCbCr-to-gray conversion is layout-correct and memory-safe for accepted images.
// The assembly routine is executed by asmx exactly as AsmYCbCrToGray calls it; every load and store is checked
// against the image planes and the destination buffer (these obligations do not depend on plane contents, so they
// hold for all contents of a given layout). Values are compared with the portable formula on patterned planes.

func zzLum(yy, cb, cr uint8) float32 {
	yy1 := int32(yy) * 0x10101
	cb1 := int32(cb) - 128
	cr1 := int32(cr) - 128
	r := yy1 + 91881*cr1
	g := yy1 - 22554*cb1 - 46802*cr1
	b := yy1 + 116130*cb1
	return float32(0.299*float64(r/257) + 0.587*float64(g/257) + 0.114*float64(b>>8))
}

func zzPattern(img *image.YCbCr) {
	for i := range img.Y {
		img.Y[i] = uint8(i*7 + 3)
	}
	for i := range img.Cb {
		img.Cb[i] = uint8(i*5 + 11)
		img.Cr[i] = uint8(i*3 + 17)
	}
}

func zzImage(ratio image.YCbCrSubsampleRatio, sub bool) *image.YCbCr {
	if !sub {
		img := image.NewYCbCr(image.Rect(0, 0, 64, 64), ratio)
		zzPattern(img)
		return img
	}
	big := image.NewYCbCr(image.Rect(0, 0, 80, 80), ratio)
	zzPattern(big)
	return big.SubImage(image.Rect(8, 8, 72, 72)).(*image.YCbCr)
}

func zzCheckGray(img *image.YCbCr, pixels []float32, msg string) {
	ok := true
	for y := 0; y < 64; y++ {
		for x := 0; x < 64; x++ {
			px, py := img.Rect.Min.X+x, img.Rect.Min.Y+y
			want := zzLum(img.Y[img.YOffset(px, py)], img.Cb[img.COffset(px, py)], img.Cr[img.COffset(px, py)])
			d := pixels[y*64+x] - want
			ok = ok && d <= 2.0 && d >= -2.0
		}
	}
	zzAssert(ok, msg)
}

// 4:4:4 image at the origin (the layout the assembly was written for)
func zzC20_asm444() {
	img := zzImage(image.YCbCrSubsampleRatio444, false)
	pixels := make([]float32, 64*64)
	AsmYCbCrToGray(img, pixels)
	zzCheckGray(img, pixels, "4:4:4 at the origin: every luminance value is within 2.0 of the portable conversion of the pixel at the same coordinates")
	zzReached("end")
}

// the other layouts: five subsampled ratios at the origin, all six ratios as the sub-image (8,8)-(72,72) of an 80x80 image
func zzC20_asm_layouts_N() int { return 11 }
func zzC20_asm_layouts() {
	p := zzPart() + 1
	img := zzImage(image.YCbCrSubsampleRatio(p%6), p >= 6)
	pixels := make([]float32, 64*64)
	AsmYCbCrToGray(img, pixels)
	zzCheckGray(img, pixels, "every luminance value is within 2.0 of the portable conversion of the pixel at the same coordinates")
	zzReached("end")
}

// the portable routine: images at the origin, all six ratios
func zzC20_portable_origin_N() int { return 6 }
func zzC20_portable_origin() {
	img := zzImage(image.YCbCrSubsampleRatio(zzPart()), false)
	pixels := make([]float32, 64*64)
	yCbCrToGrayAlt(img, pixels)
	zzCheckGray(img, pixels, "portable conversion at the origin: every luminance value is that of the pixel at the same coordinates")
	zzReached("end")
}

// the portable routine on sub-images
func zzC20_portable_sub_N() int { return 6 }
func zzC20_portable_sub() {
	img := zzImage(image.YCbCrSubsampleRatio(zzPart()), true)
	pixels := make([]float32, 64*64)
	yCbCrToGrayAlt(img, pixels)
	zzCheckGray(img, pixels, "portable conversion of a sub-image: every luminance value is that of the pixel at the same coordinates")
	zzReached("end")
}

// 4:4:4 at the origin with padded chroma rows (CStride 80 != YStride 64): a legal image.YCbCr that the assembly handles
// (it takes the chroma stride separately); also with a padded luma... only the chroma padding is within what the
// routine supports (YStride must equal the width, see the known findings)
func zzC20_asm444_padded() {
	img := &image.YCbCr{Y: make([]uint8, 64*64), Cb: make([]uint8, 80*64), Cr: make([]uint8, 80*64), YStride: 64, CStride: 80,
		SubsampleRatio: image.YCbCrSubsampleRatio444, Rect: image.Rect(0, 0, 64, 64)}
	zzPattern(img)
	pixels := make([]float32, 64*64)
	AsmYCbCrToGray(img, pixels)
	zzCheckGray(img, pixels, "4:4:4 at the origin with padded chroma rows: every luminance value is within 2.0 of the portable conversion of the pixel at the same coordinates")
	portable := make([]float32, 64*64)
	yCbCrToGrayAlt(img, portable)
	zzCheckGray(img, portable, "portable conversion with padded chroma rows: every luminance value is that of the pixel at the same coordinates")
	zzReached("end")
}
