package transforms32

import "math"

// C18 - the assembly DCT kernels equal the portable Go kernels bit for bit (translation validation: both are
// executed symbolically on the same 64 / 256 / 4096 symbolic float32 inputs; the assembly by asmx from asm_x86.s,
// the Go kernels from their SSA) and stay inside their argument.

func zzBits(f float32) uint32 { return math.Float32bits(f) }

// zzSameLane: identical bit patterns, or both zero (the assembly adds +0.0 to some lanes, which turns -0.0 into +0.0:
// recorded as a known finding through zzC18_negzero).
func zzSameLane(g, a float32) bool {
	return zzBits(g) == zzBits(a) || (zzBits(g)&0x7fffffff == 0 && zzBits(a)&0x7fffffff == 0)
}

func zzC18_dct64() {
	zzIgnoreZeroSign()
	g := zzF32s("x", 64)
	a := append([]float32{}, g...)
	forwardDCT64(g)
	asmForwardDCT64(a)
	for i := range g {
		zzAssert(zzSameLane(g[i], a[i]), "asmForwardDCT64 lane equals forwardDCT64 lane (bit for bit, up to the sign of a zero)")
	}
	zzReached("end")
}

func zzC18_dct256() {
	zzIgnoreZeroSign()
	g := zzF32s("x", 256)
	a := append([]float32{}, g...)
	forwardDCT256(g)
	asmForwardDCT256(a)
	for i := range g {
		zzAssert(zzSameLane(g[i], a[i]), "asmForwardDCT256 lane equals forwardDCT256 lane (bit for bit, up to the sign of a zero)")
	}
	zzReached("end")
}

func zzC18_dct2d64() {
	zzIgnoreZeroSign()
	g := zzF32s("x", 64*64)
	a := append([]float32{}, g...)
	saveFlag, saveFn := FlagUseASM, ForwardDCT64
	FlagUseASM, ForwardDCT64 = false, forwardDCT64
	og := DCT2DHash64(g)
	FlagUseASM, ForwardDCT64 = saveFlag, saveFn
	oa := asmDCT2DHash64(a)
	for i := range og {
		zzAssert(zzSameLane(og[i], oa[i]), "asmDCT2DHash64 output equals the portable DCT2DHash64 output (bit for bit, up to the sign of a zero)")
	}
	zzReached("end")
}

// the concrete witness of the sign-of-zero discrepancy: x[0] = -0.0, all other inputs +0.0
func zzC18_negzero() {
	g := make([]float32, 64)
	g[0] = float32(math.Copysign(0, -1))
	a := append([]float32{}, g...)
	forwardDCT64(g)
	asmForwardDCT64(a)
	for i := range g {
		zzAssert(zzBits(g[i]) == zzBits(a[i]), "asmForwardDCT64 equals forwardDCT64 bit for bit on the vector (-0, +0, ..., +0)")
	}
	zzReached("end")
}
