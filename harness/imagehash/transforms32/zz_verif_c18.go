package transforms32

import "math"

// C18 - the assembly DCT kernels equal the portable Go kernels bit for bit (translation validation: both are
// executed symbolically on the same 64 / 256 / 4096 symbolic float32 inputs; the assembly by asmx from asm_x86.s,
// the Go kernels from their SSA) and stay inside their argument.

func zzBits(f float32) uint32 { return math.Float32bits(f) }

// zzSameLane: identical bit patterns, or both zero (the assembly adds +0.0 to some lanes, which turns -0.0 into +0.0:
// recorded as a known finding through zzC18_negzero).
func zzSameLane(g, a float32) bool {
	return zzBits(g) == zzBits(a) || (zzBits(g)&0x7fffffff == 0 && zzBits(a)&0x7fffffff == 0)
}

func zzC18_dct64() {
	zzIgnoreZeroSign()
	g := zzF32s("x", 64)
	a := zzGuardCopy(g)
	forwardDCT64(g)
	asmForwardDCT64(a)
	for i := range g {
		zzAssert(zzSameLane(g[i], a[i]), "asmForwardDCT64 lane equals forwardDCT64 lane (bit for bit, up to the sign of a zero)")
	}
	zzReached("end")
}

func zzC18_dct256() {
	zzIgnoreZeroSign()
	g := zzF32s("x", 256)
	a := zzGuardCopy(g)
	forwardDCT256(g)
	asmForwardDCT256(a)
	for i := range g {
		zzAssert(zzSameLane(g[i], a[i]), "asmForwardDCT256 lane equals forwardDCT256 lane (bit for bit, up to the sign of a zero)")
	}
	zzReached("end")
}

func zzC18_dct2d64() {
	zzIgnoreZeroSign()
	g := zzF32s("x", 64*64)
	a := zzGuardCopy(g)
	saveFlag, saveFn := FlagUseASM, ForwardDCT64
	FlagUseASM, ForwardDCT64 = false, forwardDCT64
	og := DCT2DHash64(g)
	FlagUseASM, ForwardDCT64 = saveFlag, saveFn
	oa := asmDCT2DHash64(a)
	for i := range og {
		zzAssert(zzSameLane(og[i], oa[i]), "asmDCT2DHash64 output equals the portable DCT2DHash64 output (bit for bit, up to the sign of a zero)")
	}
	zzReached("end")
}

// the concrete witness of the sign-of-zero discrepancy: x[0] = -0.0, all other inputs +0.0
func zzC18_negzero() {
	g := make([]float32, 64)
	g[0] = float32(math.Copysign(0, -1))
	a := append([]float32{}, g...)
	forwardDCT64(g)
	asmForwardDCT64(a)
	for i := range g {
		zzAssert(zzBits(g[i]) == zzBits(a[i]), "asmForwardDCT64 equals forwardDCT64 bit for bit on the vector (-0, +0, ..., +0)")
	}
	zzReached("end")
}

// C18-3: the portable float32 kernels agree with the unscaled DCT-II. The kernel's output terms are read over the reals
// (exact rational linear forms of the 64 / 256 inputs) and "for every real x: |out_k(x) - DCTII_k(x)| <= eps*||x||_1" is
// an LRA query per output; the rounding error of the float32 evaluation enters as a running error bound.
func zzC18_math64() {
	zzIgnoreZeroSign()
	x := zzF32s("x", 64)
	in := append([]float32{}, x...)
	forwardDCT64(x)
	zzAssert(zzDCTII32(in, x, 1e-6, 3.5e-5), "forwardDCT64 is within (1e-6 exact-real + 3.5e-5 rounding)*||x||_1 of the unscaled DCT-II")
	zzReached("end")
}

func zzC18_math256() {
	zzIgnoreZeroSign()
	x := zzF32s("x", 256)
	in := append([]float32{}, x...)
	forwardDCT256(x)
	zzAssert(zzDCTII32(in, x, 2.5e-6, 2e-4), "forwardDCT256 is within (2.5e-6 exact-real + 2e-4 rounding)*||x||_1 of the unscaled DCT-II")
	zzReached("end")
}

// the property's own figure, 1e-5*||x||_1, on every unit impulse (exhaustive, one partition per impulse; evaluated
// concretely by the machine exactly as the native code does)
func zzC18_impulse64_N() int { return 64 }
func zzC18_impulse64() {
	x := make([]float32, 64)
	x[zzPart()] = 1
	in := append([]float32{}, x...)
	forwardDCT64(x)
	zzAssert(zzDCTII32(in, x, 1e-5, 0), "forwardDCT64 of a unit impulse is within 1e-5 of the DCT-II")
	a := append([]float32{}, in...)
	asmForwardDCT64(a)
	zzAssert(zzDCTII32(in, a, 1e-5, 0), "asmForwardDCT64 of a unit impulse is within 1e-5 of the DCT-II")
	zzReached("end")
}

func zzC18_impulse256_N() int { return 256 }
func zzC18_impulse256() {
	x := make([]float32, 256)
	x[zzPart()] = 1
	in := append([]float32{}, x...)
	forwardDCT256(x)
	zzAssert(zzDCTII32(in, x, 1e-5, 0), "forwardDCT256 of a unit impulse is within 1e-5 of the DCT-II")
	zzReached("end")
}
