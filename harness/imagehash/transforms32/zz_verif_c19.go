package transforms32

import "math"

// C19 (c) for the float32 pipeline (portable branch): 2-D wiring of DCT2DHash64 / DCT2DHash256 against the real 1-D
// kernels on the same symbolic inputs (term identity).
func zzSame32(a, b float32) bool { return zzSameTerm(float64(a), float64(b)) }

func zzC19_wiring32_N() int { return 2 }
func zzC19_wiring32() {
	zzIgnoreZeroSign()
	saveFlag, save64, save256 := FlagUseASM, ForwardDCT64, ForwardDCT256
	FlagUseASM, ForwardDCT64, ForwardDCT256 = false, forwardDCT64, forwardDCT256
	n, k := 64, 8
	if zzPart() == 1 {
		n, k = 256, 16
	}
	in := zzF32s("x", n*n)
	work := append([]float32{}, in...)
	var got []float32
	if n == 64 {
		g := DCT2DHash64(work)
		got = g[:]
	} else {
		g := DCT2DHash256(&work)
		got = g[:]
	}
	FlagUseASM, ForwardDCT64, ForwardDCT256 = saveFlag, save64, save256
	one := forwardDCT64
	if n == 256 {
		one = forwardDCT256
	}
	rows := make([][]float32, n)
	for y := 0; y < n; y++ {
		r := append([]float32{}, in[n*y:n*y+n]...)
		one(r)
		rows[y] = r
	}
	for u := 0; u < k; u++ {
		col := make([]float32, n)
		for y := 0; y < n; y++ {
			col[y] = rows[y][u]
		}
		one(col)
		for v := 0; v < k; v++ {
			zzAssert(zzSame32(got[k*v+u], col[v]), "float32 DCT2DHash: flattens[k*v+u] is coefficient (u,v) of the separable 2-D transform")
		}
	}
	zzReached("end")
}

// C19 (d) for the float32 pipeline: quickSelectMedian (shared by MedianOfPixels64/256) on 2..5 arbitrary values, ties
// included: it terminates, leaves a permutation, and returns the rank-n/2 value (odd n) or a/2 + b/2 with b the upper
// median and a another value not above it (even n).
func zzRankIs32(q []float32, b float32, k int) bool {
	less, leq := 0, 0
	for i := range q {
		less += zzB2I(q[i] < b)
		leq += zzB2I(q[i] <= b)
	}
	return less <= k && leq > k
}

func zzC19_median32_N() int { return 4 }
func zzC19_median32() {
	n := 2 + zzPart()
	q := zzF32s("p", n)
	tmp := append([]float32{}, q...)
	m := quickSelectMedian(tmp, 0, n-1, n/2)
	if n%2 == 1 {
		found := 0
		for i := 0; i < n; i++ {
			found += zzB2I(math.Float32bits(q[i]) == math.Float32bits(m))
		}
		zzAssert(found > 0 && zzRankIs32(q, m, n/2), "odd count: the median is the value of rank n/2")
	} else {
		ok := 0
		for i := 0; i < n; i++ {
			for j := 0; j < n; j++ {
				if i != j && zzSame32(m, q[i]/2+q[j]/2) {
					ok += zzB2I(q[i] <= q[j] && zzRankIs32(q, q[j], n/2))
				}
			}
		}
		zzAssert(ok > 0, "even count: the threshold is a/2 + b/2 with b the upper median and a another value not above it")
	}
	zzReached("end")
}
