package transforms32

// C19 (c) for the float32 pipeline (portable branch): 2-D wiring of DCT2DHash64 / DCT2DHash256 against the real 1-D
// kernels on the same symbolic inputs (term identity).
func zzSame32(a, b float32) bool { return zzSameTerm(float64(a), float64(b)) }

func zzC19_wiring32_N() int { return 2 }
func zzC19_wiring32() {
	zzIgnoreZeroSign()
	saveFlag, save64, save256 := FlagUseASM, ForwardDCT64, ForwardDCT256
	FlagUseASM, ForwardDCT64, ForwardDCT256 = false, forwardDCT64, forwardDCT256
	n, k := 64, 8
	if zzPart() == 1 {
		n, k = 256, 16
	}
	in := zzF32s("x", n*n)
	work := append([]float32{}, in...)
	var got []float32
	if n == 64 {
		g := DCT2DHash64(work)
		got = g[:]
	} else {
		g := DCT2DHash256(&work)
		got = g[:]
	}
	FlagUseASM, ForwardDCT64, ForwardDCT256 = saveFlag, save64, save256
	one := forwardDCT64
	if n == 256 {
		one = forwardDCT256
	}
	rows := make([][]float32, n)
	for y := 0; y < n; y++ {
		r := append([]float32{}, in[n*y:n*y+n]...)
		one(r)
		rows[y] = r
	}
	for u := 0; u < k; u++ {
		col := make([]float32, n)
		for y := 0; y < n; y++ {
			col[y] = rows[y][u]
		}
		one(col)
		for v := 0; v < k; v++ {
			zzAssert(zzSame32(got[k*v+u], col[v]), "float32 DCT2DHash: flattens[k*v+u] is coefficient (u,v) of the separable 2-D transform")
		}
	}
	zzReached("end")
}
