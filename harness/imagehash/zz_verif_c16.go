package imagehash

// C16 - perceptual-hash binary forms (little-endian packing) survive Encode/Decode, every value.

func zzC16_phash64() {
	v := PHash64(zzU64("v"))
	b := make([]byte, 8)
	v.Encode(b)
	for i := 0; i < 8; i++ {
		zzAssert(b[i] == byte(uint64(v)>>(8*uint(i))), "PHash64.Encode is little-endian")
	}
	var w PHash64
	w.Decode(b)
	zzAssert(w == v, "PHash64 survives Encode/Decode")
	zzReached("end")
}

func zzC16_phash256() {
	v := PHash256{zzU64("a"), zzU64("b"), zzU64("c"), zzU64("d")}
	b := make([]byte, 32)
	v.Encode(b)
	for k := 0; k < 4; k++ {
		for i := 0; i < 8; i++ {
			zzAssert(b[8*k+i] == byte(v[k]>>(8*uint(i))), "PHash256.Encode packs the four words little-endian in order")
		}
	}
	var w PHash256
	w.Decode(b)
	zzAssert(w == v, "PHash256 survives Encode/Decode")
	zzReached("end")
}
