package imagehash

import (
	"image"
	"image/color"
)

// C19 - wrong sizes are rejected; distances are Hamming distances.

// zzImg: an image.Image with an arbitrary bounds rectangle and a constant colour.
type zzImg struct{ r image.Rectangle }

func (z zzImg) ColorModel() color.Model { return color.GrayModel }
func (z zzImg) Bounds() image.Rectangle { return z.r }
func (z zzImg) At(x, y int) color.Color { return color.Gray{Y: 7} }

// (a) size guard: every image whose size is not the required one, wherever its rectangle starts, and the nil image, is
// rejected with an error (sizes from the classes around the required size; origin arbitrary from {-3, 0, 5}).
func zzC19_guard_N() int { return 4 }
func zzC19_guard() {
	fn := zzPart()
	want := 64
	if fn >= 2 {
		want = 256
	}
	w, h := zzInt("w"), zzInt("h")
	okW := w == 0 || w == 1 || w == want-1 || w == want || w == want+1 || w == want/2 || w == 2*want
	okH := h == 0 || h == 1 || h == want-1 || h == want || h == want+1 || h == want/2 || h == 2*want
	zzAssume(okW)
	zzAssume(okH)
	zzAssume(!(w == want && h == want))
	w, h = int(zzConc(uint64(w), 8)), int(zzConc(uint64(h), 8))
	ox := zzInt("ox")
	zzAssume(ox == -3 || ox == 0 || ox == 5)
	ox = int(int64(zzConc(uint64(ox), 3)))
	img := zzImg{r: image.Rect(ox, 2, ox+w, 2+h)}
	var err error
	switch fn {
	case 0:
		_, err = NewPHash64(img)
	case 1:
		_, err = NewPHash64Alt(img)
	case 2:
		_, err = NewPHash256(img)
	case 3:
		_, err = NewPHash256Alt(img)
	}
	zzAssert(err != nil, "an image that does not have the required size is rejected with an error")
	zzReached("end")
}

func zzC19_nil_N() int { return 4 }
func zzC19_nil() {
	var err error
	switch zzPart() {
	case 0:
		_, err = NewPHash64(nil)
	case 1:
		_, err = NewPHash64Alt(nil)
	case 2:
		_, err = NewPHash256(nil)
	case 3:
		_, err = NewPHash256Alt(nil)
	}
	zzAssert(err != nil, "a nil image is rejected with an error")
	zzReached("end")
}

func zzPop(x uint64) int {
	n := 0
	for i := uint(0); i < 64; i++ {
		n += int(x >> i & 1)
	}
	return n
}

// (f) distances are Hamming distances
func zzC19_distance64() {
	a, b := PHash64(zzU64("a")), PHash64(zzU64("b"))
	zzAssert(a.Distance(a) == 0, "d(a,a) = 0")
	zzAssert(a.Distance(b) == b.Distance(a), "d(a,b) = d(b,a)")
	zzAssert(int(a.Distance(b)) == zzPop(uint64(a)^uint64(b)), "PHash64.Distance is the number of differing bits")
	zzReached("end")
}

func zzC19_distance256() {
	a := PHash256{zzU64("a0"), zzU64("a1"), zzU64("a2"), zzU64("a3")}
	b := PHash256{zzU64("b0"), zzU64("b1"), zzU64("b2"), zzU64("b3")}
	zzAssert(a.Distance(a) == 0, "d(a,a) = 0 (256)")
	zzAssert(a.Distance(b) == b.Distance(a), "d(a,b) = d(b,a) (256)")
	// per word popcnt is the bit count (zzC19_distance64 decides that for every 64-bit word); here: the four words are summed
	zzAssert(int(a.Distance(b)) == popcnt(a[0]^b[0])+popcnt(a[1]^b[1])+popcnt(a[2]^b[2])+popcnt(a[3]^b[3]), "PHash256.Distance is the sum of the four per-word bit counts")
	zzReached("end")
}
