package imagehash

import (
	"image"
	"image/color"
)

type zzImg04 struct{ r image.Rectangle }

func (z zzImg04) ColorModel() color.Model { return color.GrayModel }
func (z zzImg04) Bounds() image.Rectangle { return z.r }
func (z zzImg04) At(x, y int) color.Color { return color.Gray{Y: uint8(x*3 + y*5)} }

// C04/imagehash: the hash of an accepted image does not depend on what the pixel pools hold from earlier images
func zzC04_hash_N() int { return 2 }
func zzC04_hash() {
	img := zzImg04{r: image.Rect(0, 0, 64, 64)}
	if zzPart() == 0 {
		a, ea := NewPHash64(img)
		zzPoolHavoc()
		b, eb := NewPHash64(img)
		zzAssert(ea == nil && eb == nil && a == b, "NewPHash64 of the same image is the same for every pool history")
	} else {
		a, ea := NewPHash64Alt(img)
		zzPoolHavoc()
		b, eb := NewPHash64Alt(img)
		zzAssert(ea == nil && eb == nil && a == b, "NewPHash64Alt of the same image is the same for every pool history")
	}
	zzReached("end")
}

// an image with fully transparent pixels (generic conversion path), hashed on pristine pools, after another image, and
// again: the recycled pixel buffers must not show through
type zzImg04a struct {
	r   image.Rectangle
	cut bool
}

func (z zzImg04a) ColorModel() color.Model { return color.NRGBAModel }
func (z zzImg04a) Bounds() image.Rectangle { return z.r }
func (z zzImg04a) At(x, y int) color.Color {
	if z.cut && x >= 8 && x < 40 && y >= 16 && y < 48 {
		return color.NRGBA{}
	}
	return color.NRGBA{R: uint8(x*3 + y*5), G: uint8(x * 7), B: uint8(255 - y*3), A: 255}
}

func zzC04_hashprimed_N() int { return 2 }
func zzC04_hashprimed() {
	cutout := zzImg04a{r: image.Rect(0, 0, 64, 64), cut: true}
	opaque := zzImg04a{r: image.Rect(0, 0, 64, 64)}
	if zzPart() == 0 {
		a, ea := NewPHash64(cutout)
		_, _ = NewPHash64(opaque)
		b, eb := NewPHash64(cutout)
		zzAssert(ea == nil && eb == nil && a == b, "NewPHash64 of an image with transparent pixels is the same before and after another image")
	} else {
		a, ea := NewPHash64Alt(cutout)
		_, _ = NewPHash64Alt(opaque)
		b, eb := NewPHash64Alt(cutout)
		zzAssert(ea == nil && eb == nil && a == b, "NewPHash64Alt of an image with transparent pixels is the same before and after another image")
	}
	zzReached("end")
}
