package imagehash

import (
	"image"
	"image/color"
)

type zzImg04 struct{ r image.Rectangle }

func (z zzImg04) ColorModel() color.Model { return color.GrayModel }
func (z zzImg04) Bounds() image.Rectangle { return z.r }
func (z zzImg04) At(x, y int) color.Color { return color.Gray{Y: uint8(x*3 + y*5)} }

// C04/imagehash: the hash of an accepted image does not depend on what the pixel pools hold from earlier images
func zzC04_hash_N() int { return 2 }
func zzC04_hash() {
	img := zzImg04{r: image.Rect(0, 0, 64, 64)}
	if zzPart() == 0 {
		a, ea := NewPHash64(img)
		zzPoolHavoc()
		b, eb := NewPHash64(img)
		zzAssert(ea == nil && eb == nil && a == b, "NewPHash64 of the same image is the same for every pool history")
	} else {
		a, ea := NewPHash64Alt(img)
		zzPoolHavoc()
		b, eb := NewPHash64Alt(img)
		zzAssert(ea == nil && eb == nil && a == b, "NewPHash64Alt of the same image is the same for every pool history")
	}
	zzReached("end")
}
