package transforms

import "image"

// C19 (b) - gray conversion layout: pixels[y*s+x] is the luminance of the pixel at (Min.X+x, Min.Y+y), for every
// rectangle origin; every element of pixels[:s*s] is written. Side s = 2 (part 0) and 3 (part 1).
func zzC19_gray_rgba_N() int { return 2 }
func zzC19_gray_rgba() {
	s := 2 + zzPart()
	ox, oy := zzInt("ox"), zzInt("oy")
	zzAssume((ox == 0 || ox == 1 || ox == -2) && (oy == 0 || oy == 3))
	ox, oy = int(int64(zzConc(uint64(ox), 3))), int(int64(zzConc(uint64(oy), 2)))
	img := &image.RGBA{Pix: zzBytes("pix", 4*s*s), Stride: 4 * s, Rect: image.Rect(ox, oy, ox+s, oy+s)}
	pixels := make([]float64, s*s)
	for i := range pixels {
		pixels[i] = -1
	}
	Rgb2GrayFast(img, &pixels)
	for y := 0; y < s; y++ {
		for x := 0; x < s; x++ {
			want := pixel2Gray(img.RGBAAt(ox+x, oy+y).RGBA())
			zzAssert(zzF64bits(pixels[y*s+x]) == zzF64bits(want), "pixels[y*s+x] is the luminance of the pixel at (Min.X+x, Min.Y+y) (RGBA)")
		}
	}
	zzReached("end")
}

func zzC19_gray_gray_N() int { return 2 }
func zzC19_gray_gray() {
	s := 2 + zzPart()
	ox := zzInt("ox")
	zzAssume(ox == 0 || ox == 1)
	ox = int(zzConc(uint64(ox), 2))
	img := &image.Gray{Pix: zzBytes("pix", s*s), Stride: s, Rect: image.Rect(ox, 0, ox+s, s)}
	pixels := make([]float64, s*s)
	Rgb2GrayFast(img, &pixels)
	for y := 0; y < s; y++ {
		for x := 0; x < s; x++ {
			want := pixel2Gray(img.GrayAt(ox+x, y).RGBA())
			zzAssert(zzF64bits(pixels[y*s+x]) == zzF64bits(want), "pixels[y*s+x] is the luminance of the pixel at (Min.X+x, Min.Y+y) (Gray)")
		}
	}
	zzReached("end")
}

// C19 (c) - 2-D wiring of DCT2DHash64: flattens[8*v+u] is entry v of the transform of column u of the row-transformed
// image, for the 8x8 low-frequency block. Both sides use the real 1-D kernel on the same 4096 symbolic inputs; the
// obligation is equality of the resulting terms.
func zzC19_wiring64() {
	zzIgnoreZeroSign()
	in := zzF64s("x", 64*64)
	work := append([]float64{}, in...)
	got := DCT2DHash64(&work)
	rows := make([][]float64, 64)
	for y := 0; y < 64; y++ {
		r := append([]float64{}, in[64*y:64*y+64]...)
		forwardDCT64(r)
		rows[y] = r
	}
	for u := 0; u < 8; u++ {
		col := make([]float64, 64)
		for y := 0; y < 64; y++ {
			col[y] = rows[y][u]
		}
		forwardDCT64(col)
		for v := 0; v < 8; v++ {
			zzAssert(zzSameTerm(got[8*v+u], col[v]), "DCT2DHash64: flattens[8v+u] is coefficient (u,v) of the separable 2-D transform")
		}
	}
	zzReached("end")
}

// C19 (d) - the threshold: for an odd number of values quickSelectMedian returns the value of rank n/2; for an even
// number (the hashes use 64 and 256) it returns a/2 + b/2 where b is the value of rank n/2 (the upper median) and a is
// another of the values with a <= b - "a threshold at or just below the median". n = 2..5; the float order is exact on
// the bit patterns, NaN excluded; MedianOfPixels does not modify its argument. (n = 6 does not finish: one query over six 64-bit keys.)
func zzRankIs(q []float64, b float64, k int) bool {
	less, leq := 0, 0
	for i := range q {
		less += zzB2I(q[i] < b)
		leq += zzB2I(q[i] <= b)
	}
	return less <= k && leq > k
}

func zzC19_median_N() int { return 4 }
func zzC19_median() {
	n := 2 + zzPart()
	p := zzF64s("p", n)
	q := append([]float64{}, p...)
	m := MedianOfPixels(p)
	for i := 0; i < n; i++ {
		zzAssert(zzF64bits(p[i]) == zzF64bits(q[i]), "MedianOfPixels leaves its argument unchanged")
	}
	if n%2 == 1 {
		found := 0
		for i := 0; i < n; i++ {
			found += zzB2I(zzF64bits(q[i]) == zzF64bits(m))
		}
		zzAssert(found > 0 && zzRankIs(q, m, n/2), "odd count: the median is the value of rank n/2")
	} else {
		ok := 0
		for i := 0; i < n; i++ {
			for j := 0; j < n; j++ {
				if i != j {
					if zzSameTerm(m, q[i]/2+q[j]/2) {
						ok += zzB2I(q[i] <= q[j] && zzRankIs(q, q[j], n/2))
					}
				}
			}
		}
		zzAssert(ok > 0, "even count: the threshold is a/2 + b/2 with b the upper median and a another value not above it")
	}
	zzReached("end")
}

// the same for the 256-bit hash: flattens[16*v+u], 16x16 block of the 256x256 transform (65536 symbolic inputs)
func zzC19_wiring256() {
	zzIgnoreZeroSign()
	in := zzF64s("x", 256*256)
	work := append([]float64{}, in...)
	got := DCT2DHash256(&work)
	rows := make([][]float64, 256)
	for y := 0; y < 256; y++ {
		r := append([]float64{}, in[256*y:256*y+256]...)
		forwardDCT256(r)
		rows[y] = r
	}
	for u := 0; u < 16; u++ {
		col := make([]float64, 256)
		for y := 0; y < 256; y++ {
			col[y] = rows[y][u]
		}
		forwardDCT256(col)
		for v := 0; v < 16; v++ {
			zzAssert(zzSameTerm(got[16*v+u], col[v]), "DCT2DHash256: flattens[16v+u] is coefficient (u,v) of the separable 2-D transform")
		}
	}
	zzReached("end")
}
