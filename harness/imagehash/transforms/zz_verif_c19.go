package transforms

import "image"

// C19 (b) - gray conversion layout: pixels[y*s+x] is the luminance of the pixel at (Min.X+x, Min.Y+y), for every
// rectangle origin; every element of pixels[:s*s] is written. Side s = 2 (part 0) and 3 (part 1).
func zzC19_gray_rgba_N() int { return 2 }
func zzC19_gray_rgba() {
	s := 2 + zzPart()
	ox, oy := zzInt("ox"), zzInt("oy")
	zzAssume((ox == 0 || ox == 1 || ox == -2) && (oy == 0 || oy == 3))
	ox, oy = int(int64(zzConc(uint64(ox), 3))), int(int64(zzConc(uint64(oy), 2)))
	img := &image.RGBA{Pix: zzBytes("pix", 4*s*s), Stride: 4 * s, Rect: image.Rect(ox, oy, ox+s, oy+s)}
	pixels := make([]float64, s*s)
	for i := range pixels {
		pixels[i] = -1
	}
	Rgb2GrayFast(img, &pixels)
	for y := 0; y < s; y++ {
		for x := 0; x < s; x++ {
			want := pixel2Gray(img.RGBAAt(ox+x, oy+y).RGBA())
			zzAssert(zzF64bits(pixels[y*s+x]) == zzF64bits(want), "pixels[y*s+x] is the luminance of the pixel at (Min.X+x, Min.Y+y) (RGBA)")
		}
	}
	zzReached("end")
}

func zzC19_gray_gray_N() int { return 2 }
func zzC19_gray_gray() {
	s := 2 + zzPart()
	ox := zzInt("ox")
	zzAssume(ox == 0 || ox == 1)
	ox = int(zzConc(uint64(ox), 2))
	img := &image.Gray{Pix: zzBytes("pix", s*s), Stride: s, Rect: image.Rect(ox, 0, ox+s, s)}
	pixels := make([]float64, s*s)
	Rgb2GrayFast(img, &pixels)
	for y := 0; y < s; y++ {
		for x := 0; x < s; x++ {
			want := pixel2Gray(img.GrayAt(ox+x, y).RGBA())
			zzAssert(zzF64bits(pixels[y*s+x]) == zzF64bits(want), "pixels[y*s+x] is the luminance of the pixel at (Min.X+x, Min.Y+y) (Gray)")
		}
	}
	zzReached("end")
}
