package transforms

// C18-4: the float64 kernels agree with the unscaled DCT-II. As in transforms32: the kernel's output terms are read over
// the reals (exact rational linear forms of the inputs), "for every real x: |out_k(x) - DCTII_k(x)| <= eps*||x||_1" is an
// LRA query per output, and the rounding error of the float64 evaluation enters as a running error bound.

func zzC18_math64f64() {
	zzIgnoreZeroSign()
	x := zzF64s("x", 64)
	in := append([]float64{}, x...)
	forwardDCT64(x)
	zzAssert(zzDCTII64(in, x, 1e-13, 1e-13), "transforms.forwardDCT64 is within (1e-13 exact-real + 1e-13 rounding)*||x||_1 of the unscaled DCT-II")
	zzReached("end")
}

func zzC18_math256f64() {
	zzIgnoreZeroSign()
	x := zzF64s("x", 256)
	in := append([]float64{}, x...)
	forwardDCT256(x)
	zzAssert(zzDCTII64(in, x, 1e-12, 1e-12), "transforms.forwardDCT256 is within (1e-12 exact-real + 1e-12 rounding)*||x||_1 of the unscaled DCT-II")
	zzReached("end")
}

// the generic recursive kernel (coefficients computed with math.Cos at run time) on 32 inputs
func zzC18_math32gen() {
	zzIgnoreZeroSign()
	x := zzF64s("x", 32)
	in := append([]float64{}, x...)
	out := DCT1D(x)
	zzAssert(zzDCTII64(in, out, 1e-13, 1e-13), "transforms.DCT1D (32 points) is within (1e-13 exact-real + 1e-13 rounding)*||x||_1 of the unscaled DCT-II")
	zzReached("end")
}
