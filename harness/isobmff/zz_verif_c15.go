package isobmff

import (
	"bufio"
	"io"

	"github.com/evanoberholster/imagemeta/meta"
	"github.com/rs/zerolog"
	"github.com/rs/zerolog/log"
)

// C15 for the HEIF/AVIF item route: meta{iinf{infe Exif}, iloc{offset, length}} + mdat with the item location
// arbitrary (classes, as in the C01 harness): the result of ReadMetadata and the calls of the Exif callback are the
// same under the default level and under every other level.
func zzMdatFile(off, ln, pre uint32) []byte {
	const meta = 24
	const iinf = meta + 12
	const iloc = iinf + 8 + 6 + 22
	const mdat = iloc + 8 + 8 + 14
	const N = mdat + 8 + 48
	z := &zzBuf{b: make([]byte, N)}
	z.str(0, "\x00\x00\x00\x18ftypavif\x00\x00\x00\x00avifmif1")
	z.box(meta, mdat-meta, "meta")
	z.box(iinf, 8+6+22, "iinf")
	z.b[iinf+13] = 1
	z.box(iinf+14, 22, "infe")
	z.b[iinf+14+8] = 2
	z.b[iinf+14+13] = 1
	z.str(iinf+14+16, "Exif")
	z.box(iloc, 8+8+14, "iloc")
	z.b[iloc+12] = 0x44
	z.b[iloc+15] = 1
	z.b[iloc+17] = 1
	z.b[iloc+21] = 1
	z.put32(iloc+22, off)
	z.put32(iloc+26, ln)
	z.box(mdat, 8+48, "mdat")
	z.put32(mdat+8, pre) // the size word in front of the Exif marker
	z.str(mdat+8+4, "Exif\x00\x00II*\x00\x08\x00\x00\x00")
	return z.b
}

func zzMdatRun(b []byte) (errs [3]bool, calls int) {
	r := NewReader(bufio.NewReaderSize(zzReaderOf(b), 4096))
	defer r.Close()
	r.ExifReader = func(rd io.Reader, h meta.ExifHeader) error { calls++; return nil }
	if err := r.ReadFTYP(); err != nil {
		return
	}
	for i := 0; i < 3; i++ {
		errs[i] = r.ReadMetadata() != nil
		if errs[i] {
			break
		}
	}
	return
}

func zzC15_mdat_N() int { return 14 }
func zzC15_mdat() {
	const mdat = 24 + 12 + 36 + 30
	const N = mdat + 8 + 48
	off := []uint32{mdat + 16, 0, 1, mdat, mdat + 8, mdat + 8 + 4, mdat + 8 + 16, mdat + 8 + 20, mdat + 8 + 40, N - 1, N, N + 16, 0x7fffffff, 0xffffffff}[zzPart()]
	ln := zzU32("len")
	zzAssume(ln <= 2 || ln == 8 || ln == 16 || ln == 24 || ln == 26 || ln == 48 || ln == 49 || ln == 0x7fffffff || ln == 0xffffffff)
	ln = uint32(zzConc(uint64(ln), 12))
	pre := zzU32("pre")
	zzAssume(pre == 0 || pre == 6 || pre == 40 || pre == 100 || pre == 0x7fffffff)
	pre = uint32(zzConc(uint64(pre), 5))
	b := zzMdatFile(off, ln, pre)
	e0, c0 := zzMdatRun(b)
	l := int8(zzU8("level"))
	zzAssume(l >= -1 && l <= 7)
	Logger = log.Output(io.Discard).Level(zerolog.Level(int8(zzConc(uint64(uint8(l)), 16))))
	e1, c1 := zzMdatRun(b)
	zzAssert(e0 == e1, "the log level does not change which ReadMetadata calls fail (HEIF item route)")
	zzAssert(c0 == c1, "the log level does not change the calls of the Exif callback (HEIF item route)")
	zzReached("end")
}
