package isobmff

// shared box-building helpers of the isobmff harnesses

type zzBuf struct{ b []byte }

func (z *zzBuf) put32(off int, v uint32) {
	z.b[off], z.b[off+1], z.b[off+2], z.b[off+3] = byte(v>>24), byte(v>>16), byte(v>>8), byte(v)
}
func (z *zzBuf) str(off int, s string) {
	for i := 0; i < len(s); i++ {
		z.b[off+i] = s[i]
	}
}
func (z *zzBuf) box(off int, size uint32, typ string) {
	z.put32(off, size)
	z.str(off+4, typ)
	if size == 1 && off+16 <= len(z.b) {
		// 64-bit size form: the large size from the classes {0, 15, 16, 17, 40, 2^31, 2^63, 2^64-1}
		l := zzU64("large")
		zzAssume(l == 0 || l == 15 || l == 16 || l == 17 || l == 40 || l == 1<<31 || l == 1<<63 || l == 1<<64-1)
		l = zzConc(l, 8)
		z.put32(off+8, uint32(l>>32))
		z.put32(off+12, uint32(l))
	}
}
func (z *zzBuf) sym(off int, name string, n int) []byte {
	v := zzBytes(name, n)
	for i := range v {
		z.b[off+i] = v[i]
	}
	return v
}

// zzSize: a 32-bit size field from the classes {0, 1 (64-bit form), 7, 8, 9, 12, 16, 24, exact-1, exact, exact+1,
// n+8 (beyond the stream), 0x7fffffff, 0x80000000, 0xffffffff}; case split so that positions stay concrete.
func zzSize(name string, n int, exact int) uint32 {
	s := zzU32(name)
	zzAssume(s == 0 || s == 1 || s == 7 || s == 8 || s == 9 || s == 12 || s == 16 || s == 24 || int(s) == exact-1 || int(s) == exact || int(s) == exact+1 ||
		int(s) == n+8 || s == 0x7fffffff || s == 0x80000000 || s == 0xffffffff)
	return uint32(zzConc(uint64(s), 16))
}

const zzFtyp = "\x00\x00\x00\x18ftypcrx \x00\x00\x00\x01crx isom"


var zzUUIDs = []string{
	"\x85\xc0\xb6\x87\x82\x0f\x11\xe0\x81\x11\xf4\xce\x46\x2b\x6a\x48", // cr3 meta
	"\xbe\x7a\xcf\xcb\x97\xa9\x42\xe8\x9c\x71\x99\x94\x91\xe3\xaf\xac", // xpacket
	"\xea\xf4\x2b\x5e\x1c\x98\x4b\x88\xb9\xfb\xb7\xdc\x40\x6e\x4d\x16", // preview
}
