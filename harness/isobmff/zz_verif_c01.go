package isobmff

import (
	"bufio"
	"io"

	"github.com/evanoberholster/imagemeta/meta"
)

// C01/isobmff: box routes. Box type four-ccs and uuid values that select a route are concrete; size fields, flags,
// counts and payload bytes are arbitrary (size fields case split over every value up to the stream length and
// symbolic above it, so that positions stay concrete on each path).

func zzExifCb(mode int) func(r io.Reader, h meta.ExifHeader) error {
	switch mode {
	case 0:
		return nil
	case 1:
		return func(r io.Reader, h meta.ExifHeader) error {
			buf := make([]byte, 6)
			_, _ = r.Read(buf)
			if br, ok := r.(interface{ Discard(int) (int, error) }); ok {
				_, _ = br.Discard(3)
			}
			return nil
		}
	}
	return func(r io.Reader, h meta.ExifHeader) error { return io.ErrUnexpectedEOF }
}

func zzBmffRun(b []byte, calls int, mode int, trunc bool) *zzMemReader {
	var src *zzMemReader
	if trunc {
		src = zzReaderTrunc(b, "t")
	} else {
		src = zzReaderOf(b)
	}
	r := NewReader(bufio.NewReaderSize(src, 4096))
	defer r.Close()
	r.ExifReader = zzExifCb(mode)
	if mode > 0 {
		r.XMPReader = func(rd io.Reader) error { buf := make([]byte, 5); _, _ = rd.Read(buf); return nil }
		r.PreviewImageReader = func(rd io.Reader, h meta.PreviewHeader) error { buf := make([]byte, 4); _, _ = rd.Read(buf); return nil }
	}
	if err := r.ReadFTYP(); err != nil {
		return src
	}
	for i := 0; i < calls; i++ {
		if err := r.ReadMetadata(); err != nil {
			break
		}
	}
	return src
}

// R1: the ftyp box itself: arbitrary size (32-bit and the 64-bit form), arbitrary brands; every truncation.
func zzC01_bmff_ftyp() {
	z := &zzBuf{b: make([]byte, 48)}
	z.sym(0, "f", 48)
	z.str(4, "ftyp")
	z.put32(0, zzSize("sz", 48, 24))
	_ = zzBmffRun(z.b, 1, 0, true)
	zzReached("end")
}

// R17/R12: an arbitrary top-level box after ftyp: arbitrary size, type from every dispatch class
func zzC01_bmff_top_N() int { return 6 }
func zzC01_bmff_top() {
	typ := []string{"mdat", "meta", "moov", "uuid", "free", "zzzz"}[zzPart()]
	z := &zzBuf{b: make([]byte, 24+48)}
	z.str(0, zzFtyp)
	z.sym(24, "p", 48)
	z.box(24, zzSize("sz", 72, 48), typ)
	_ = zzBmffRun(z.b, 2, 1, false)
	zzReached("end")
}

// R2..R9: meta -> one child of every handled type with arbitrary size and 40 arbitrary payload bytes.
func zzC01_bmff_meta_N() int { return 8 }
func zzC01_bmff_meta() {
	// (iinf and iloc, whose payload has its own size fields, have dedicated harnesses below)
	typ := []string{"hdlr", "pitm", "iref", "iprp", "idat", "uuid", "zzzz", "infe"}[zzPart()]
	const N = 24 + 12 + 8 + 40
	z := &zzBuf{b: make([]byte, N)}
	z.str(0, zzFtyp)
	z.box(24, N-24, "meta")
	z.sym(32, "fl", 4)
	z.sym(36, "p", 48)
	z.box(36, zzSize("sz", N, 48), typ)
	_ = zzBmffRun(z.b, 1, 1, false)
	zzReached("end")
}

// the same with the meta box's own size arbitrary and the child well-formed; every truncation
func zzC01_bmff_meta_outer_N() int { return 3 }
func zzC01_bmff_meta_outer() {
	typ := []string{"hdlr", "pitm", "zzzz"}[zzPart()]
	const N = 24 + 12 + 8 + 24
	z := &zzBuf{b: make([]byte, N)}
	z.str(0, zzFtyp)
	z.sym(36, "p", 32)
	z.box(24, zzSize("sz", N, N-24), "meta")
	z.box(36, 32, typ)
	_ = zzBmffRun(z.b, 1, 1, true)
	zzReached("end")
}

// R4: meta -> iinf -> one arbitrary 26-byte entry (size, type, flags, item fields arbitrary)
func zzC01_bmff_infe_N() int { return 2 }
func zzC01_bmff_infe() {
	const N = 24 + 12 + 14 + 26 + 8
	z := &zzBuf{b: make([]byte, N)}
	z.str(0, zzFtyp)
	z.box(24, 12+14+26, "meta")
	z.box(36, 14+26, "iinf")
	z.sym(44, "fl", 6)
	z.sym(50, "e", 26)
	if zzPart() == 0 {
		z.str(54, "infe")
		z.b[58] = 2
		z.str(66, "mime")
	}
	z.put32(50, zzSize("sz", 40, 26))
	_ = zzBmffRun(z.b, 1, 0, false)
	zzReached("end")
}

// R5: meta -> iloc with arbitrary header nibbles, count and 24 entry bytes
func zzC01_bmff_iloc() {
	const N = 24 + 12 + 8 + 8 + 24
	z := &zzBuf{b: make([]byte, N)}
	z.str(0, zzFtyp)
	z.box(24, 12+8+8+24, "meta")
	z.box(36, 8+8+24, "iloc")
	h := z.sym(44, "h", 8)
	zzAssume(h[0] == 0 || h[0] == 1)
	z.b[44] = byte(zzConc(uint64(h[0]), 2))
	z.b[48] = byte(zzConc(uint64(h[4]), 256))
	z.b[49] = byte(zzConc(uint64(h[5]), 256))
	z.sym(52, "e", 24)
	_ = zzBmffRun(z.b, 1, 0, false)
	zzReached("end")
}


// R10: moov -> uuid(cr3 meta) -> one child of every handled type (CNCV, CTBO, CMT1..4, other) with arbitrary size, 40 payload bytes
func zzC01_bmff_crx_N() int { return 21 }
func zzC01_bmff_crx() {
	typ := []string{"CNCV", "CTBO", "CMT1", "CMT2", "CMT3", "CMT4", "zzzz"}[zzPart()%7]
	const N = 24 + 8 + 24 + 8 + 40
	z := &zzBuf{b: make([]byte, N)}
	z.str(0, zzFtyp)
	z.box(24, N-24, "moov")
	z.box(32, N-32, "uuid")
	z.str(40, zzUUIDs[0])
	z.sym(56, "p", 48)
	z.box(56, zzSize("sz", N, 48), typ)
	_ = zzBmffRun(z.b, 1, zzPart()/7, false)
	zzReached("end")
}

// R13/R14/R15: top-level uuid boxes (xpacket, preview -> PRVW, unknown) with arbitrary sizes
func zzC01_bmff_uuid_N() int { return 3 }
func zzC01_bmff_uuid() {
	const N = 24 + 24 + 8 + 8 + 32
	z := &zzBuf{b: make([]byte, N)}
	z.str(0, zzFtyp)
	z.sym(48, "p", 48)
	z.box(24, zzSize("sz", N, N-24), "uuid")
	if zzPart() < 2 {
		z.str(32, zzUUIDs[1+zzPart()])
	} else {
		z.sym(32, "u", 16)
	}
	if zzPart() == 1 {
		z.box(56, zzSize("psz", N, 40), "PRVW")
	}
	_ = zzBmffRun(z.b, 1, 1, false)
	zzReached("end")
}

// fast structural harnesses: payload bytes are concrete (zero / pattern), every size field of the tree is arbitrary
// from the size classes; all box types of each dispatch.
func zzC01_bmff_sizes_N() int { return 24 }
func zzC01_bmff_sizes() {
	p := zzPart()
	const N = 24 + 8 + 24 + 8 + 40 + 16
	z := &zzBuf{b: make([]byte, N)}
	z.str(0, zzFtyp)
	for i := 24; i < N; i++ {
		z.b[i] = byte(i)
	}
	switch {
	case p < 6: // top-level box of every type
		typ := []string{"mdat", "meta", "moov", "uuid", "free", "zzzz"}[p]
		z.box(24, zzSize("s0", N, N-24), typ)
		z.put32(32, 0)
		z.box(36, zzSize("s1", N, 20), "free")
	case p < 14: // meta -> child of every handled type
		typ := []string{"hdlr", "pitm", "iinf", "iref", "iprp", "idat", "iloc", "uuid"}[p-6]
		z.box(24, zzSize("s0", N, N-24), "meta")
		z.put32(32, 0)
		z.box(36, zzSize("s1", N, 40), typ)
		z.put32(44, 0)
		z.box(50, zzSize("s2", N, 24), "infe")
	case p < 21: // moov -> uuid(cr3) -> child of every handled type
		typ := []string{"CNCV", "CTBO", "CMT1", "CMT2", "CMT3", "CMT4", "zzzz"}[p-14]
		z.box(24, zzSize("s0", N, N-24), "moov")
		z.box(32, zzSize("s1", N, N-32), "uuid")
		z.str(40, zzUUIDs[0])
		z.box(56, zzSize("s2", N, 48), typ)
		z.str(64, "II*\x00\x08\x00\x00\x00\x00\x00")
	default: // uuid xpacket / preview(PRVW) / unknown
		k := p - 21
		z.box(24, zzSize("s0", N, N-24), "uuid")
		if k < 2 {
			z.str(32, zzUUIDs[1+k])
		}
		z.box(56, zzSize("s1", N, 40), "PRVW")
	}
	for mode := 0; mode < 2; mode++ {
		_ = zzBmffRun(z.b, 2, mode, false)
	}
	zzReached("end")
}

// CTBO: record indices and the count are arbitrary (classes), offsets/lengths concrete
func zzC01_bmff_ctbo() {
	const N = 24 + 8 + 24 + 8 + 4 + 40 + 8
	z := &zzBuf{b: make([]byte, N)}
	z.str(0, zzFtyp)
	z.box(24, N-24-8, "moov")
	z.box(32, N-32-8, "uuid")
	z.str(40, zzUUIDs[0])
	z.box(56, 8+4+40, "CTBO")
	cnt := zzU32("cnt")
	zzAssume(cnt <= 6 || cnt == 0xffffffff)
	z.put32(64, uint32(zzConc(uint64(cnt), 8)))
	for r := 0; r < 2; r++ {
		idx := zzU32([]string{"i0", "i1"}[r])
		zzAssume(idx <= 6 || idx == 0x7fffffff || idx == 0x80000000 || idx == 0xffffffff)
		z.put32(68+20*r, uint32(zzConc(uint64(idx), 10)))
		z.put32(68+20*r+8, 100)
		z.put32(68+20*r+16, 200)
	}
	z.box(N-8, 8, "free")
	for mode := 0; mode < 2; mode++ {
		_ = zzBmffRun(z.b, 2, mode, false)
	}
	zzReached("end")
}

// HEIF route: meta{iinf{infe Exif id 1}, iloc{item 1: offset, length}} then mdat: the Exif item's offset and length are
// arbitrary (classes around the mdat payload), the 48 payload bytes are arbitrary (part 0) or start with a 4-byte prefix
// + "Exif\0\0" + TIFF header (part 1).
func zzC01_bmff_mdat_N() int { return 28 }
func zzC01_bmff_mdat() {
	const meta = 24
	const iinf = meta + 12
	const iloc = iinf + 8 + 6 + 22
	const mdat = iloc + 8 + 8 + 14
	const N = mdat + 8 + 48
	z := &zzBuf{b: make([]byte, N)}
	z.str(0, "\x00\x00\x00\x18ftypavif\x00\x00\x00\x00avifmif1")
	z.box(meta, mdat-meta, "meta")
	z.box(iinf, 8+6+22, "iinf")
	z.b[iinf+13] = 1 // count
	z.box(iinf+14, 22, "infe")
	z.b[iinf+14+8] = 2 // version 2
	z.b[iinf+14+13] = 1 // item id 1
	z.str(iinf+14+16, "Exif")
	z.box(iloc, 8+8+14, "iloc")
	z.b[iloc+12] = 0x44
	z.b[iloc+15] = 1 // one item
	z.b[iloc+17] = 1 // item id 1
	z.b[iloc+21] = 1 // one extent
	// the item offset: one class per partition (before, at and inside the mdat payload, at and past the end, huge)
	off := []uint32{0, 1, mdat, mdat + 8, mdat + 8 + 4, mdat + 8 + 16, mdat + 8 + 20, mdat + 8 + 40, N - 1, N, N + 16, 0x7fffffff, 0xffffffff, mdat + 16}[zzPart()/2]
	z.put32(iloc+22, off)
	ln := zzU32("len")
	zzAssume(ln <= 2 || ln == 8 || ln == 15 || ln == 16 || ln == 17 || ln == 23 || ln == 24 || ln == 25 || ln == 26 || ln == 30 || ln == 48 || ln == 49 || ln == 0x7fffffff || ln == 0xffffffff)
	z.put32(iloc+26, uint32(zzConc(uint64(ln), 20)))
	z.box(mdat, 8+48, "mdat")
	z.sym(mdat+8, "p", 48)
	if zzPart()%2 == 1 {
		z.str(mdat+8+4, "Exif\x00\x00II*\x00\x08\x00\x00\x00")
	}
	for mode := 0; mode < 2; mode++ {
		_ = zzBmffRun(z.b, 2, mode, false)
	}
	zzReached("end")
}

// R4 (fast): meta -> iinf -> one infe entry whose size field takes every value 0..41 (and the large classes), version
// 0/2/3, item type mime / Exif / other, arbitrary id, protection index and byte 20; the content-type bytes are concrete.
func zzC01_bmff_infe2_N() int { return 3 }
func zzC01_bmff_infe2() {
	const N = 24 + 12 + 14 + 26 + 8
	z := &zzBuf{b: make([]byte, N)}
	z.str(0, "\x00\x00\x00\x18ftypavif\x00\x00\x00\x00avifmif1")
	z.box(24, 12+14+26, "meta")
	z.box(36, 14+26, "iinf")
	z.b[36+13] = 1
	z.str(50+4, "infe")
	sz := zzU32("sz")
	zzAssume(sz <= 41 || sz == 0x7fffffff || sz == 0x80000000 || sz == 0xffffffff)
	z.put32(50, uint32(zzConc(uint64(sz), 48)))
	v := zzU8("ver")
	zzAssume(v == 0 || v == 2 || v == 3)
	z.b[50+8] = byte(zzConc(uint64(v), 3))
	z.sym(50+9, "fl", 3)
	z.sym(50+12, "ids", 4)
	z.str(50+16, []string{"mime", "Exif", "zzzz"}[zzPart()])
	z.sym(50+20, "nul", 1)
	z.str(50+21, "a/b\x00\x00")
	z.box(N-8, 8, "free")
	for mode := 0; mode < 2; mode++ {
		_ = zzBmffRun(z.b, 2, mode, false)
	}
	zzReached("end")
}

// payload route (fast): the box tree is well-formed (concrete sizes), the 40 payload bytes of one leaf box are arbitrary:
// children of meta with a flat payload (hdlr, pitm, idat, unknown: parts 0..3; iref, iprp, uuid and iinf payloads do not
// finish and stay with the size-class harnesses) and every child type of the CR3 uuid (parts 4..10)
func zzC01_bmff_pay_N() int { return 11 }
func zzC01_bmff_pay() {
	p := zzPart()
	const N = 24 + 8 + 24 + 8 + 40 + 8
	z := &zzBuf{b: make([]byte, N)}
	if p < 4 {
		typ := []string{"hdlr", "pitm", "idat", "zzzz"}[p]
		z.str(0, "\x00\x00\x00\x18ftypavif\x00\x00\x00\x00avifmif1")
		z.box(24, 12+8+40, "meta")
		z.sym(32, "fl", 4)
		z.box(36, 8+40, typ)
		z.sym(44, "p", 40)
		z.box(36+48, 8, "free")
		z.box(36+56, N-36-56, "free")
	} else {
		typ := []string{"CNCV", "CTBO", "CMT1", "CMT2", "CMT3", "CMT4", "zzzz"}[p-4]
		z.str(0, zzFtyp)
		z.box(24, 8+24+8+40, "moov")
		z.box(32, 24+8+40, "uuid")
		z.str(40, zzUUIDs[0])
		z.box(56, 8+40, typ)
		z.sym(64, "p", 40)
		z.box(104, 8, "free")
	}
	for mode := 0; mode < 2; mode++ {
		_ = zzBmffRun(z.b, 2, mode, false)
	}
	zzReached("end")
}

// boxes that end exactly at the end of the 4096-byte read buffer (a free box in front pads the file): a look-ahead of
// exactly the box's remaining length has no spare capacity there. One child of meta (parts 0..4; iref and iprp payloads
// do not finish) or of the CR3 uuid (parts 5..7) with an arbitrary size 8..40 and arbitrary payload, more boxes after it.
func zzC01_bmff_bufend_N() int { return 8 }
func zzC01_bmff_bufend() {
	p := zzPart()
	s := int(zzConc(uint64(zzSizeIn("s", 8, 40)), 33))
	const N = 4096 + 24
	z := &zzBuf{b: make([]byte, N)}
	var child int
	if p < 5 {
		typ := []string{"hdlr", "pitm", "iinf", "iloc", "idat"}[p]
		z.str(0, "\x00\x00\x00\x18ftypavif\x00\x00\x00\x00avifmif1")
		meta := 4096 - s - 12
		z.box(24, uint32(meta-24), "free")
		z.box(meta, uint32(12+s), "meta")
		child = meta + 12
		z.box(child, uint32(s), typ)
		if typ == "iloc" && s >= 16 { // version 0, 4-byte offsets and lengths; extent counts at most 2
			pay := z.sym(child+8, "p", s-8)
			zzAssume(pay[0] == 0 && pay[4] == 0x44 && pay[5] == 0)
			pay[0], pay[4], pay[5] = 0, 0x44, 0
			for _, i := range []int{12, 18} {
				if i+1 < len(pay) {
					zzAssume(pay[i] == 0 && pay[i+1] <= 2)
					pay[i] = 0
				}
			}
		} else if s > 8 {
			z.sym(child+8, "p", s-8)
		}
	} else {
		typ := []string{"CNCV", "CTBO", "CMT1"}[p-5]
		z.str(0, zzFtyp)
		moov := 4096 - s - 32
		z.box(24, uint32(moov-24), "free")
		z.box(moov, uint32(32+s), "moov")
		z.box(moov+8, uint32(24+s), "uuid")
		z.str(moov+16, zzUUIDs[0])
		child = moov + 32
		z.box(child, uint32(s), typ)
		if s > 8 {
			z.sym(child+8, "p", s-8)
		}
	}
	z.box(4096, 16, "free")
	z.box(4096+16, 8, "free")
	for mode := 0; mode < 2; mode++ {
		_ = zzBmffRun(z.b, 3, mode, false)
	}
	zzReached("end")
}

func zzSizeIn(name string, lo, hi uint32) uint32 {
	s := zzU32(name)
	zzAssume(s >= lo && s <= hi)
	return s
}
