package isobmff

import (
	"bufio"
	"io"

	"github.com/evanoberholster/imagemeta/exif2/ifds"
	"github.com/evanoberholster/imagemeta/meta"
	"github.com/evanoberholster/imagemeta/meta/utils"
)

// C11 - box containment. (a) one-step lemmas: every box operation, from an arbitrary chain of up to three nested
// boxes (remain values arbitrary non-negative ints, not assumed consistent: a child may overstate its size), with an
// arbitrary argument over the whole int range.

func zzChain(r *Reader, depth int) []*box {
	var chain []*box
	var outer *box
	for i := 0; i < depth; i++ {
		rem := zzInt([]string{"r0", "r1", "r2"}[i])
		zzAssume(rem >= 0)
		b := &box{reader: r, outer: outer, remain: rem, size: int64(rem) + 8, offset: 0, boxType: typeUUID}
		chain = append(chain, b)
		outer = b
	}
	return chain
}

func zzC11_op_N() int { return 18 }
func zzC11_op() {
	op, depth := zzPart()%8, 2+zzPart()/8
	src := zzReaderOf(zzBytes("d", 48))
	if zzPart() >= 16 {
		// Read over a source whose first two reads deliver arbitrary counts: the buffered reader then returns fewer bytes than asked
		op, depth = 2, 2+zzPart()-16
		src = zzChunkedReaderOf2(zzBytes("d", 16), "c")
	}
	br := bufio.NewReaderSize(src, 4096)
	r := &Reader{br: br}
	_, _ = br.Peek(1) // fill the buffer so that "consumed" is the logical position
	chain := zzChain(r, depth)
	b := chain[depth-1]
	pre := make([]int, depth)
	for i, c := range chain {
		pre[i] = c.remain
	}
	pos0 := src.Pos() - br.Buffered()
	n := zzInt("n")
	var err error
	switch op {
	case 0:
		_, err = b.Peek(n)
	case 1:
		_, err = b.Discard(n)
	case 2:
		zzAssume(n >= 0 && n <= 12)
		p := make([]byte, int(zzConc(uint64(n), 13)))
		_, err = b.Read(p)
	case 3:
		err = b.close()
	case 4:
		_, _, err = b.readInnerBox()
	case 5:
		_, err = b.readUint16()
	case 6:
		_, err = b.readUUID()
	case 7:
		err = b.readFlags()
	}
	consumed := src.Pos() - br.Buffered() - pos0
	zzAssert(consumed >= 0, "a box operation never moves the stream backwards")
	for i, c := range chain {
		zzAssert(c.remain <= pre[i], "no operation increases a box's remaining length")
		zzAssert(c.remain >= 0, "no operation makes a box's remaining length negative")
		zzAssert(consumed <= pre[i], "bytes consumed never exceed the remaining length of the box or of any enclosing box")
		if err == nil {
			zzAssert(pre[i]-c.remain == consumed, "a successful operation decreases every enclosing box's remaining length by exactly the bytes consumed")
		}
	}
	zzReached("end")
}

// (c) payload delivery: CMT1..4 inside moov/uuid: the Exif callback's header and reader describe exactly the box payload
func zzC11_cmt_N() int { return 4 }
func zzC11_cmt() {
	k := zzPart()
	typ := []string{"CMT1", "CMT2", "CMT3", "CMT4"}[k]
	pay := zzBytes("p", 24)
	const N = 24 + 8 + 24 + 8 + 24 + 8
	z := &zzBuf{b: make([]byte, N)}
	z.str(0, zzFtyp)
	z.box(24, 8+24+8+24+8, "moov")
	z.box(32, 24+8+24+8, "uuid")
	z.str(40, zzUUIDs[0])
	z.box(56, 8+24, typ)
	for i := range pay {
		z.b[64+i] = pay[i]
	}
	z.box(88, 8, "free")
	var got meta.ExifHeader
	var calls, avail int
	same := true
	src := zzReaderOf(z.b)
	r := NewReader(bufio.NewReaderSize(src, 4096))
	r.ExifReader = func(rd io.Reader, h meta.ExifHeader) error {
		calls++
		got = h
		buf := make([]byte, 32)
		n, _ := rd.Read(buf[:16]) // the payload after its 8-byte TIFF header is 16 bytes
		avail = n
		for i := 0; i < n; i++ {
			same = same && buf[i] == pay[8+i]
		}
		m, _ := rd.Read(buf[:1])
		avail += m
		return nil
	}
	zzAssert(r.ReadFTYP() == nil, "ftyp")
	err := r.ReadMetadata()
	zzAssert(err == nil, "a well-formed moov/uuid/CMT tree reads without error")
	zzAssert(calls == 1, "the Exif callback runs once for the CMT box")
	zzAssert(got.FirstIfd == []ifds.IfdType{ifds.IFD0, ifds.ExifIFD, ifds.MknoteIFD, ifds.GPSIFD}[k], "directory type matches the box (CMT1 root, CMT2 Exif, CMT3 maker note, CMT4 GPS)")
	zzAssert(got.ByteOrder == zzOrderOf(pay) && got.FirstIfdOffset == zzU32Of(pay), "header: byte order and first-directory offset of the payload's TIFF header")
	zzAssert(int(got.ExifLength) == len(pay), "header: ExifLength is the payload length")
	zzAssert(avail == 16 && same, "the callback's reader yields exactly the rest of the payload, no byte of the next box")
	zzAssert(src.Pos()-r.br.Buffered() == N, "after the top-level box the stream stands exactly at its end")
	zzReached("end")
}

func zzOrderOf(p []byte) utils.ByteOrder {
	if p[0] == 'I' && p[1] == 'I' && p[2] == 0x2a && p[3] == 0 {
		return 1
	}
	if p[0] == 'M' && p[1] == 'M' && p[2] == 0 && p[3] == 0x2a {
		return 2
	}
	return 0
}

func zzU32Of(p []byte) uint32 {
	if zzOrderOf(p) == 2 {
		return uint32(p[4])<<24 | uint32(p[5])<<16 | uint32(p[6])<<8 | uint32(p[7])
	}
	return uint32(p[7])<<24 | uint32(p[6])<<16 | uint32(p[5])<<8 | uint32(p[4])
}

// (b) top-level framing: after ReadMetadata the bytes consumed equal the top-level box's declared size, for every
// top-level box type, with a well-formed child or a child that overstates its size
func zzC11_top_N() int { return 10 }
func zzC11_top() {
	typ := []string{"mdat", "meta", "moov", "uuid", "free"}[zzPart()%5]
	over := zzPart() >= 5
	const N = 24 + 8 + 40 + 16
	z := &zzBuf{b: make([]byte, N)}
	z.str(0, zzFtyp)
	z.sym(32, "p", 40)
	z.box(24, 48, typ)
	if typ == "meta" {
		z.put32(32, 0) // version/flags
		cs := uint32(20)
		if over {
			cs = zzU32("cs")
			zzAssume(cs > 36 && cs < 1<<31)
		}
		z.box(36, cs, "free")
		z.box(56, 16, "free")
	}
	if typ == "moov" {
		cs := uint32(24)
		if over {
			cs = zzU32("cs")
			zzAssume(cs > 40 && cs < 1<<31)
		}
		z.box(32, cs, "trak")
		z.box(56, 16, "free")
	}
	z.box(72, 16, "free")
	if typ == "uuid" {
		// an unknown uuid (the three Canon uuids have their own harnesses)
		zzAssume(z.b[32] != 0x85 && z.b[32] != 0xbe && z.b[32] != 0xea)
	}
	src := zzReaderOf(z.b)
	r := NewReader(bufio.NewReaderSize(src, 4096))
	zzAssert(r.ReadFTYP() == nil, "ftyp")
	_ = r.ReadMetadata()
	pos := src.Pos() - r.br.Buffered()
	zzAssert(pos <= 72, "processing a top-level box never consumes bytes beyond its declared end")
	if !over {
		zzAssert(pos == 72, "after a top-level box the reader stands exactly at the next top-level box")
	}
	zzReached("end")
}

// (d) payload delivery to a callback that reads with a buffer of its own size (as bufio or io.ReadAll do): the XMP
// packet of the xpacket uuid box arrives whole, read after read, and then io.EOF; the stream then stands at the next box
func zzC11_xpacket_N() int { return 3 }
func zzC11_xpacket() {
	bufSize := []int{64, 7, 20}[zzPart()]
	pay := zzBytes("p", 20)
	const N = 24 + 8 + 16 + 20 + 16
	z := &zzBuf{b: make([]byte, N)}
	z.str(0, zzFtyp)
	z.box(24, 8+16+20, "uuid")
	z.str(32, zzUUIDs[1])
	for i := range pay {
		z.b[48+i] = pay[i]
	}
	z.box(68, 16, "free")
	src := zzReaderOf(z.b)
	r := NewReader(bufio.NewReaderSize(src, 4096))
	var got []byte
	var last error
	calls := 0
	r.XMPReader = func(rd io.Reader) error {
		calls++
		buf := make([]byte, bufSize)
		for k := 0; k < 6; k++ {
			n, err := rd.Read(buf)
			got = append(got, buf[:n]...)
			if err != nil {
				last = err
				break
			}
		}
		return nil
	}
	zzAssert(r.ReadFTYP() == nil, "ftyp")
	err := r.ReadMetadata()
	zzAssert(err == nil && calls == 1, "the xpacket uuid box is handed to the XMP callback once")
	same := len(got) == len(pay)
	for i := 0; i < len(got) && i < len(pay); i++ {
		same = same && got[i] == pay[i]
	}
	zzAssert(same, "the callback's reader yields exactly the packet, whatever the size of the callback's buffer")
	zzAssert(last == io.EOF, "after the packet the callback's reader reports io.EOF")
	zzAssert(src.Pos()-r.br.Buffered() == 68, "after the uuid box the stream stands at the next box")
	zzReached("end")
}

// (e) preview delivery: the preview uuid box holds a PRVW box and, after it, another box: the preview callback's reader
// yields exactly the PRVW image bytes and then ends; the header carries the size written in the box
func zzC11_prvw_N() int { return 2 }
func zzC11_prvw() {
	jp := zzBytes("j", 12)
	trail := 16 * zzPart() // 0: PRVW fills the uuid box; 1: a free box follows inside the uuid box
	const pr = 24 + 8 + 16 + 8
	N := pr + 8 + 16 + 12 + trail + 16
	z := &zzBuf{b: make([]byte, N)}
	z.str(0, zzFtyp)
	z.box(24, uint32(8+16+8+8+16+12+trail), "uuid")
	z.str(32, zzUUIDs[2])
	z.b[55] = 1
	z.box(pr, 8+16+12, "PRVW")
	z.b[pr+8+5], z.b[pr+8+7], z.b[pr+8+9], z.b[pr+8+11] = 1, 160, 120, 1
	z.put32(pr+8+12, 12)
	for i := range jp {
		z.b[pr+24+i] = jp[i]
	}
	if trail > 0 {
		z.box(pr+36, 16, "free")
		for i := 0; i < 8; i++ {
			z.b[pr+36+8+i] = 0xee
		}
	}
	z.box(N-16, 16, "free")
	src := zzReaderOf(z.b)
	r := NewReader(bufio.NewReaderSize(src, 4096))
	var got []byte
	var hdr meta.PreviewHeader
	calls := 0
	r.PreviewImageReader = func(rd io.Reader, h meta.PreviewHeader) error {
		calls++
		hdr = h
		one := make([]byte, 1)
		for k := 0; k < 40; k++ {
			n, err := rd.Read(one)
			got = append(got, one[:n]...)
			if err != nil || n == 0 {
				break
			}
		}
		return nil
	}
	zzAssert(r.ReadFTYP() == nil, "ftyp")
	err := r.ReadMetadata()
	zzAssert(err == nil && calls == 1, "the preview uuid box is handed to the preview callback once")
	zzAssert(hdr.Size == 12, "the preview header carries the image size written in the PRVW box")
	same := len(got) == len(jp)
	for i := 0; i < len(got) && i < len(jp); i++ {
		same = same && got[i] == jp[i]
	}
	zzAssert(same, "the preview callback's reader yields exactly the image bytes of the PRVW box")
	zzAssert(src.Pos()-r.br.Buffered() == N-16, "after the uuid box the stream stands at the next top-level box")
	zzReached("end")
}
