package imagemeta

import (
	"io"

	"github.com/rs/zerolog"
)

// C15 - logging is neutral: any log level, same results, no panic; the default configuration is silent.

func zzLevel() zerolog.Level {
	l := int8(zzU8("level"))
	zzAssume(l >= -1 && l <= 7)
	return zerolog.Level(int8(zzConc(uint64(uint8(l)), 16)))
}

// Exif through DecodeTiff under every level: same fields as under the default level, no panic
func zzC15_exif_N() int { return 3 }
func zzC15_exif() {
	k := []int{8, 11, 17}[zzPart()]
	tb := zzIfd0HoleSmall(k)
	a, ea := DecodeTiff(zzReaderOf(tb))
	SetLogger(io.Discard, zzLevel())
	b, eb := DecodeTiff(zzReaderOf(tb))
	zzAssert((ea == nil) == (eb == nil), "the log level does not change the error")
	zzAssert(a.Orientation == b.Orientation && a.Make == b.Make && a.Software == b.Software && a.ImageWidth == b.ImageWidth && a.Time.ModifyDateEqZZ(b), "the log level does not change the decoded fields")
	zzReached("end")
}

// an entry with an arbitrary field type (valid, reserved or out of range: every value below 32 and three large ones)
// under every level: rejected entries are logged through the tag's formatter
func zzC15_types_N() int { return 3 }
func zzC15_types() {
	id := []uint16{0x0112, 0x014a, 0x010f}[zzPart()]
	t := zzNewTiff(8+2+2*12+4+16, false, 8)
	t.dir(8, 2, 0)
	typ := zzU16("typ")
	zzAssume(typ < 32 || typ == 0xff || typ == 0x100 || typ == 0xffff)
	typ = uint16(zzConc(uint64(typ), 40))
	t.ent(8, 0, id, typ, 1, 38)
	t.entShort(8, 1, 0x0100, zzU16("w"))
	t.bytes(38, zzBytes("v", 16))
	a, ea := DecodeTiff(zzReaderOf(t.b))
	SetLogger(io.Discard, zzLevel())
	b, eb := DecodeTiff(zzReaderOf(t.b))
	zzAssert((ea == nil) == (eb == nil), "the log level does not change the error")
	zzAssert(a.Orientation == b.Orientation && a.Make == b.Make && a.ImageWidth == b.ImageWidth, "the log level does not change the decoded fields")
	zzReached("end")
}

// CR3: moov/uuid/{CNCV, CTBO with arbitrary count and items, CMT1} under every level
func zzC15_cr3() {
	b := make([]byte, 0, 300)
	b = append(b, zzFtypCR3...)
	inner := make([]byte, 0, 220)
	inner = append(inner, 0, 0, 0, 38, 'C', 'N', 'C', 'V')
	inner = append(inner, zzBytes("cn", 30)...)
	inner = append(inner, 0, 0, 0, 8+4+100, 'C', 'T', 'B', 'O')
	ct := zzBytes("ct", 104) // count arbitrary; five items with indices 1..5 and arbitrary offset/length
	for i := 0; i < 5; i++ {
		ct[4+20*i], ct[5+20*i], ct[6+20*i], ct[7+20*i] = 0, 0, 0, byte(i+1)
	}
	inner = append(inner, ct...)
	moovLen := 8 + 8 + 16 + len(inner)
	b = append(b, 0, 0, byte(moovLen>>8), byte(moovLen), 'm', 'o', 'o', 'v')
	b = append(b, 0, 0, byte((moovLen-8)>>8), byte(moovLen-8), 'u', 'u', 'i', 'd')
	b = append(b, "\x85\xc0\xb6\x87\x82\x0f\x11\xe0\x81\x11\xf4\xce\x46\x2b\x6a\x48"...)
	b = append(b, inner...)
	b = append(b, 0, 0, 0, 8, 'f', 'r', 'e', 'e')
	_, ea := DecodeCR3(zzReaderOf(b))
	SetLogger(io.Discard, zzLevel())
	_, eb := DecodeCR3(zzReaderOf(b))
	zzAssert((ea == nil) == (eb == nil), "the log level does not change the error (CR3)")
	zzReached("end")
}

// default configuration: nothing is written to standard output, whatever the input (well-formed or not)
func zzC15_silent_N() int { return 3 }
func zzC15_silent() {
	zzExpectSilent()
	switch zzPart() {
	case 0:
		_, _ = DecodeCR3(zzStream("d", 26))
	case 1:
		b := append([]byte(zzFtypCR3), zzBytes("x", 24)...)
		_, _ = DecodeCR3(zzReaderOf(b))
	case 2:
		_, _ = DecodeTiff(zzReaderOf(zzIfd0HoleSmall(17)))
	}
	zzReached("end")
}

// truncated input: a directory that claims three entries, the stream ends at any point; every level gives the same
// outcome as the default level and none panics
func zzC15_trunc() {
	t := zzNewTiff(8+2+3*12+4+8, false, 8)
	t.dir(8, 3, 0)
	t.entShort(8, 0, 0x0100, zzU16("w"))
	t.entShort(8, 1, 0x0112, zzU16("o"))
	t.ent(8, 2, 0x0131, 2, 6, 50)
	copy(t.b[50:], "abcde\x00")
	n := zzInt("cut")
	zzAssume(n >= 32 && n <= len(t.b))
	n = int(zzConc(uint64(n), 64))
	a, ea := DecodeTiff(zzReaderOf(t.b[:n]))
	SetLogger(io.Discard, zzLevel())
	b, eb := DecodeTiff(zzReaderOf(t.b[:n]))
	zzAssert((ea == nil) == (eb == nil), "truncated input: the log level does not change the error")
	zzAssert(a.Orientation == b.Orientation && a.ImageWidth == b.ImageWidth && a.Software == b.Software, "truncated input: the log level does not change the decoded fields")
	zzReached("end")
}
