package jpeg

import (
	"bufio"
	"io"

	"github.com/evanoberholster/imagemeta/meta"
	"github.com/evanoberholster/imagemeta/meta/utils"
)

// C10 - JPEG segment framing: callbacks get exactly their payload; scanning resumes at the next marker.

const zzXmpPrefix = "http://ns.adobe.com/xap/1.0/\x00"

type zzRec struct {
	exifCalls, xmpCalls int
	hdr                 [2]meta.ExifHeader
	xmpOK               [2]bool
	xmpLen              [2]int
}

// segment builders (concrete layout, symbolic payload)
func zzSeg(b []byte, id byte, body []byte) []byte {
	n := len(body) + 2
	b = append(b, 0xff, id, byte(n>>8), byte(n))
	return append(b, body...)
}

func zzC10_run(b []byte, exifPay, xmpPay [][]byte, consume int) (*zzRec, error) {
	rec := &zzRec{}
	err := ScanJPEG(bufio.NewReaderSize(zzReaderOf(b), 4096),
		func(r io.Reader, h meta.ExifHeader) error {
			if rec.exifCalls < 2 {
				rec.hdr[rec.exifCalls] = h
			}
			rec.exifCalls++
			// the callback consumes its declared length, as the library's own Exif reader does
			_, _ = r.(*bufio.Reader).Discard(int(h.ExifLength))
			return nil
		},
		func(r io.Reader) error {
			k := rec.xmpCalls
			rec.xmpCalls++
			if k < len(xmpPay) {
				want := xmpPay[k]
				n := len(want)
				if consume >= 0 && consume < n {
					n = consume // partial consumption
				}
				got := make([]byte, n+4)
				m := 0
				for m < n {
					c, e := r.Read(got[m:n])
					m += c
					if e != nil || c == 0 {
						break
					}
				}
				ok := m == n
				for i := 0; i < m && i < n; i++ {
					ok = ok && got[i] == want[i]
				}
				if consume < 0 || consume >= len(want) {
					// reading on must hit the end of the packet: no byte beyond it is readable
					c, _ := r.Read(got[n : n+4])
					ok = ok && c == 0
				}
				rec.xmpOK[k&1] = ok
				rec.xmpLen[k&1] = m
			}
			return nil
		})
	return rec, err
}

func zzOrder(p []byte) utils.ByteOrder {
	if p[0] == 'I' && p[1] == 'I' && p[2] == 0x2a && p[3] == 0 {
		return utils.LittleEndian
	}
	if p[0] == 'M' && p[1] == 'M' && p[2] == 0 && p[3] == 0x2a {
		return utils.BigEndian
	}
	return utils.UnknownEndian
}

func zzU32of(bo utils.ByteOrder, p []byte) uint32 {
	if bo == utils.BigEndian {
		return uint32(p[0])<<24 | uint32(p[1])<<16 | uint32(p[2])<<8 | uint32(p[3])
	}
	return uint32(p[3])<<24 | uint32(p[2])<<16 | uint32(p[1])<<8 | uint32(p[0])
}

// sequences SOI, X, Exif-APP1, Y, XMP-APP1, DQT, image data; X and Y from {nothing, APP0 JFIF, APP2, COM, DRI, APP1 with a
// foreign prefix, APP3 holding SOI/EOI bytes}; payload bytes arbitrary (0xFF included); XMP consumption arbitrary (part).
func zzC10_seq_N() int { return 14 }
func zzC10_seq() {
	p := zzPart()
	kind, swap := p%7, p/7 == 1
	exifPay := zzBytes("ep", 16)
	xmpPay := zzBytes("xp", 12)
	other := zzBytes("op", 10)
	b := []byte{0xff, 0xd8}
	filler := func() {
		switch kind {
		case 1:
			b = zzSeg(b, 0xe0, append([]byte("JFIF\x00"), other...))
		case 2:
			b = zzSeg(b, 0xe2, other)
		case 3:
			b = zzSeg(b, 0xfe, other)
		case 4:
			b = append(b, 0xff, 0xdd, 0, 4, other[0], other[1])
		case 5:
			zzAssume(!(other[0] == 'E' && other[1] == 'x') && other[0] != 'h')
			b = zzSeg(b, 0xe1, other)
		case 6: // an APP segment whose payload holds SOI / EOI markers (embedded thumbnail)
			b = zzSeg(b, 0xe3, append([]byte{0xff, 0xd8, 0xff, 0xd9}, other[:6]...))
		}
	}
	var exifAt int
	addExif := func() {
		b = append(b, 0xff, 0xe1, 0, byte(2+6+len(exifPay)))
		b = append(b, "Exif\x00\x00"...)
		exifAt = len(b)
		b = append(b, exifPay...)
	}
	addXmp := func() {
		b = append(b, 0xff, 0xe1, 0, byte(2+len(zzXmpPrefix)+len(xmpPay)))
		b = append(b, zzXmpPrefix...)
		b = append(b, xmpPay...)
	}
	filler()
	if swap {
		addXmp()
		filler()
		addExif()
	} else {
		addExif()
		filler()
		addXmp()
	}
	b = append(b, 0xff, 0xdb, 0, 2)
	b = append(b, make([]byte, 70)...)
	consume := int(zzU8("consume") % 16) // 0..15: partial or full (>= 12) consumption of the XMP packet
	consume = int(zzConc(uint64(consume), 16))
	rec, err := zzC10_run(b, [][]byte{exifPay}, [][]byte{xmpPay}, consume)
	zzAssert(err == nil, "a well-formed marker stream scans without error")
	zzAssert(rec.exifCalls == 1 && rec.xmpCalls == 1, "each metadata segment before the first DQT is delivered exactly once, whatever lies between them")
	h := rec.hdr[0]
	bo := zzOrder(exifPay)
	zzAssert(h.ByteOrder == bo, "Exif callback: byte order of the payload's TIFF signature")
	zzAssert(h.FirstIfdOffset == zzU32of(bo, exifPay[4:8]), "Exif callback: first-directory offset stored after the signature")
	zzAssert(int(h.TiffHeaderOffset) == exifAt, "Exif callback: absolute offset of the payload")
	zzAssert(int(h.ExifLength) == len(exifPay), "Exif callback: length of the payload")
	zzAssert(rec.xmpOK[0], "XMP callback: the reader yields exactly the bytes of the packet, no more, no fewer")
	zzReached("end")
}

// non-metadata segments are never mistaken for metadata: APPn / COM / SOF segments with arbitrary payloads
func zzC10_nonmeta() {
	id := zzMarkerNonMeta("id")
	pay := zzBytes("p", 40)
	if id == 0xe1 {
		isExif := pay[0] == 'E' && pay[1] == 'x' && pay[2] == 'i' && pay[3] == 'f' && pay[4] == 0 && pay[5] == 0
		zzAssume(!isExif)
		isXmp := true
		for i := 0; i < len(zzXmpPrefix); i++ {
			isXmp = isXmp && pay[i] == zzXmpPrefix[i]
		}
		zzAssume(!isXmp)
	}
	b := []byte{0xff, 0xd8}
	b = zzSeg(b, id, pay)
	b = append(b, 0xff, 0xdb, 0, 2)
	b = append(b, make([]byte, 70)...)
	rec, err := zzC10_run(b, nil, nil, -1)
	zzAssert(err == nil, "scan succeeds")
	zzAssert(rec.exifCalls == 0 && rec.xmpCalls == 0, "no callback for a segment that is not Exif-APP1 / XMP-APP1")
	zzReached("end")
}

func zzMarkerNonMeta(name string) byte {
	id := zzU8(name)
	zzAssume(id == 0xe0 || id == 0xe1 || id == 0xe2 || id == 0xed || id == 0xe5 || id == 0xef || id == 0xfe || id == 0xc0 || id == 0xc2)
	return byte(zzConc(uint64(id), 16))
}

// segments whose 16-bit length is at the top of the range, two Exif segments in one stream (absolute offsets after a
// metadata segment), part = declared length of the leading COM segment
func zzC10_bigseg_N() int { return 4 }
func zzC10_bigseg() {
	size := []int{40, 0xfffd, 0xfffe, 0xffff}[zzPart()]
	e1, e2 := zzBytes("e1", 12), zzBytes("e2", 12)
	b := make([]byte, 0, size+200)
	b = append(b, 0xff, 0xd8, 0xff, 0xfe, byte(size>>8), byte(size))
	b = append(b, make([]byte, size-2)...)
	b = append(b, 0xff, 0xe1, 0, 2+6+12)
	b = append(b, "Exif\x00\x00"...)
	at1 := len(b)
	b = append(b, e1...)
	b = append(b, 0xff, 0xe1, 0, 2+6+12)
	b = append(b, "Exif\x00\x00"...)
	at2 := len(b)
	b = append(b, e2...)
	b = append(b, 0xff, 0xdb, 0, 2)
	b = append(b, make([]byte, 70)...)
	rec, err := zzC10_run(b, nil, nil, -1)
	zzAssert(err == nil, "a well-formed stream with a maximal-length segment scans without error")
	zzAssert(rec.exifCalls == 2, "both Exif segments after the long segment are delivered")
	zzAssert(int(rec.hdr[0].TiffHeaderOffset) == at1 && int(rec.hdr[1].TiffHeaderOffset) == at2, "absolute offsets of both payloads (the second follows a consumed Exif segment)")
	zzAssert(rec.hdr[0].ByteOrder == zzOrder(e1) && rec.hdr[1].ByteOrder == zzOrder(e2), "byte orders of both payloads")
	zzReached("end")
}
