package jpeg

import (
	"errors"
	"io"

	"github.com/evanoberholster/imagemeta/meta"
)

var zzErrCb = errors.New("zz: callback error")

// callbacks: nil / consuming part of the payload / failing
func zzExifCb(mode int) func(r io.Reader, h meta.ExifHeader) error {
	switch mode {
	case 0:
		return nil
	case 1:
		return func(r io.Reader, h meta.ExifHeader) error {
			buf := make([]byte, 8)
			_, _ = r.Read(buf)
			return nil
		}
	}
	return func(r io.Reader, h meta.ExifHeader) error { return zzErrCb }
}

func zzXmpCb(mode int) func(r io.Reader) error {
	switch mode {
	case 0:
		return nil
	case 1:
		return func(r io.Reader) error {
			buf := make([]byte, 5)
			_, _ = r.Read(buf)
			return nil
		}
	}
	return func(r io.Reader) error { return zzErrCb }
}

// zzHoleSeg writes one marker segment at b[at:]: 0xFF, arbitrary id, arbitrary 16-bit size (case split over every
// value up to len(b), symbolic above), plen arbitrary payload bytes without 0xFF (cut: the scan for the next 0xFF
// byte inside payloads is exercised by zzC01_jpeg_filler).
func zzHoleSeg(b []byte, at int, name string, plen int) { zzHoleSegR(b, at, name, plen, 0, 1) }

// zzHoleSegR: as zzHoleSeg, sizes restricted to the residue class sz % mod == res when sz <= len(b) (partitioning).
func zzHoleSegR(b []byte, at int, name string, plen int, res, mod int) {
	sym := zzBytes(name, 1+plen)
	b[at] = 0xff
	b[at+1] = sym[0]
	sz := zzU16(name + "sz")
	if int(sz) <= len(b) {
		zzAssume(int(sz)%mod == res)
		sz = uint16(zzConc(uint64(sz), len(b)+1))
	} else {
		zzAssume(res == 0)
	}
	b[at+2], b[at+3] = byte(sz>>8), byte(sz)
	for i := 0; i < plen; i++ {
		zzAssume(sym[1+i] != 0xff)
		b[at+4+i] = sym[1+i]
	}
}

// C01/jpeg hole: SOI, then ONE marker whose id, 16-bit size and 36 payload bytes are arbitrary, then 24 zero bytes;
// callbacks nil / consuming / failing (part % 3); sizes partitioned by residue (part / 3).
func zzC01_jpeg_hole_N() int { return 12 }
func zzC01_jpeg_hole() {
	mode := zzPart() % 3
	b := make([]byte, 2+4+36+24)
	b[0], b[1] = 0xff, 0xd8
	zzHoleSegR(b, 2, "a", 36, zzPart()/3, 4)
	r := zzReaderOf(b)
	_ = ScanJPEG(r, zzExifCb(mode), zzXmpCb(mode))
	zzAssert(r.Requested() <= 4*r.Len()+65536, "bytes requested from the reader stay within 4*len+64KiB")
	zzReached("end")
}

// zzSizeClass: a 16-bit size from the classes {0, 1, 2, 3, 8, 9, 10, exact, exact+1, 0x7fff, 0xffff}.
func zzSizeClass(name string, exact uint16) uint16 {
	sz := zzU16(name)
	zzAssume(sz == 0 || sz == 1 || sz == 2 || sz == 3 || sz == 8 || sz == 9 || sz == 10 || sz == exact || sz == exact+1 || sz == 0x7fff || sz == 0xffff)
	return uint16(zzConc(uint64(sz), 16))
}

// C01/jpeg truncation: SOI, one marker (arbitrary id, size class, 36 arbitrary payload bytes), 70 zero bytes;
// the stream ends at every point (symbolic length) with EOF or an error.
func zzC01_jpeg_trunc_N() int { return 3 }
func zzC01_jpeg_trunc() {
	mode := zzPart()
	b := make([]byte, 2+4+36+70)
	b[0], b[1] = 0xff, 0xd8
	sym := zzBytes("a", 37)
	b[2], b[3] = 0xff, sym[0]
	sz := zzSizeClass("asz", 38)
	b[4], b[5] = byte(sz>>8), byte(sz)
	for i := 0; i < 36; i++ {
		zzAssume(sym[1+i] != 0xff)
		b[6+i] = sym[1+i]
	}
	r := zzReaderTrunc(b, "t")
	_ = ScanJPEG(r, zzExifCb(mode), zzXmpCb(mode))
	zzAssert(r.Requested() <= 4*r.Len()+65536, "bytes requested from the reader stay within 4*len+64KiB")
	zzReached("end")
}

// zzMarkerClass: marker ids of every dispatch class (SOI, EOI, DHT, DQT, DRI, SOF, APP0, APP1, APP2, APP13, APPn, COM, other).
func zzMarkerClass(name string) byte {
	id := zzU8(name)
	zzAssume(id == 0xd8 || id == 0xd9 || id == 0xc4 || id == 0xdb || id == 0xdd || id == 0xc0 || id == 0xe0 || id == 0xe1 ||
		id == 0xe2 || id == 0xed || id == 0xe5 || id == 0xfe || id == 0x01)
	return byte(zzConc(uint64(id), 16))
}

// C01/jpeg sequences: SOI followed by two well-formed minimal markers (size field only) of every dispatch class,
// then a marker of every class with a size class, then 70 zero bytes (nesting-depth bookkeeping, resumption).
func zzC01_jpeg_seq_N() int { return 13 }
func zzC01_jpeg_seq() {
	ids := []byte{0xd8, 0xd9, 0xc4, 0xdb, 0xdd, 0xc0, 0xe0, 0xe1, 0xe2, 0xed, 0xe5, 0xfe, 0x01}
	b := make([]byte, 2+2*4+4+8+70)
	b[0], b[1] = 0xff, 0xd8
	b[2], b[3], b[4], b[5] = 0xff, ids[zzPart()], 0, 2
	b[6], b[7], b[8], b[9] = 0xff, zzMarkerClass("m1"), 0, 2
	b[10], b[11] = 0xff, zzMarkerClass("m2")
	sz := zzSizeClass("sz", 10)
	b[12], b[13] = byte(sz>>8), byte(sz)
	r := zzReaderOf(b)
	_ = ScanJPEG(r, zzExifCb(1), zzXmpCb(1))
	zzReached("end")
}

// C01/jpeg filler: SOI, k <= 3 arbitrary non-marker filler bytes, a marker of every class and size class, 70 zero bytes.
func zzC01_jpeg_filler_N() int { return 4 }
func zzC01_jpeg_filler() {
	k := zzPart()
	b := make([]byte, 2+k+4+8+70)
	b[0], b[1] = 0xff, 0xd8
	f := zzBytes("f", 3)
	for j := 0; j < k; j++ {
		zzAssume(f[j] != 0xff)
		b[2+j] = f[j]
	}
	b[2+k], b[3+k] = 0xff, zzMarkerClass("m")
	sz := zzSizeClass("sz", 10)
	b[4+k], b[5+k] = byte(sz>>8), byte(sz)
	r := zzReaderTrunc(b, "t")
	_ = ScanJPEG(r, nil, nil)
	zzReached("end")
}
