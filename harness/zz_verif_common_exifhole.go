package imagemeta

import "github.com/evanoberholster/imagemeta/exif2"

const zzFtypCR3 = "\x00\x00\x00\x18ftypcrx \x00\x00\x00\x01crx isom"

// zzIfd0HoleSmall: header, IFD0 = one entry of the k-th dispatched id with type in {ASCII, SHORT}, count <= 8 and an
// in-window or zero offset, 28 arbitrary value bytes (a small family shared by the C14/C15 harnesses).
func zzIfd0HoleSmall(k int) []byte {
	ids := []uint16{0x010f, 0x0110, 0x013b, 0x8298, 0x0100, 0x0101, 0x0111, 0x0117, 0x0112, 0x0131, 0x010e, 0x0132, 0xc612, 0xc62f, 0x8769, 0x8825, 0x014a, 0x1234}
	t := zzNewTiff(8+2+12+4+28, false, 8)
	t.dir(8, 1, 0)
	t.bytes(26, zzBytes("v", 28))
	typ, cnt, off := zzU16("typ"), zzU32("cnt"), zzU32("off")
	zzAssume(typ == 2 || typ == 3)
	typ = uint16(zzConc(uint64(typ), 2))
	zzAssume(cnt <= 8 || cnt == 20)
	cnt = uint32(zzConc(uint64(cnt), 10))
	zzAssume(off == 26 || off == 0)
	off = uint32(zzConc(uint64(off), 2))
	t.ent(8, 0, ids[k], typ, cnt, off)
	return t.b
}

// zzPayload: TIFF header + IFD0 {ImageWidth SHORT, Orientation SHORT, Software ASCII[6] out of line}, values symbolic.
func zzPayload(be bool) []byte {
	t := zzNewTiff(8+2+3*12+4+6, be, 8)
	t.dir(8, 3, 0)
	t.entShort(8, 0, 0x0100, zzU16("w"))
	t.entShort(8, 1, 0x0112, zzU16("o"))
	t.ent(8, 2, 0x0131, 2, 6, 50)
	s := zzBytes("s", 5)
	for _, c := range s {
		zzAssume(c > ' ' && c < 0x7f)
	}
	t.bytes(50, append(append([]byte{}, s...), 0))
	return t.b
}

func zzSameFields(a, b exif2.Exif) bool {
	return a.ImageWidth == b.ImageWidth && a.Orientation == b.Orientation && a.Software == b.Software && a.Make == b.Make && a.ISOSpeed == b.ISOSpeed
}

