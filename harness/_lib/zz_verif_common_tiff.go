// inject: . exif2
package PKGNAME

// zzTiff: a tiny TIFF/Exif encoder used by the skeleton harnesses. Structure (offsets, entry positions) is
// concrete; values may be solver variables. It runs unchanged natively (replay).
type zzTiff struct {
	b  []byte
	be bool
}

// zzNewTiff returns an n-byte buffer holding a TIFF header (byte order be, first directory at ifd0).
func zzNewTiff(n int, be bool, ifd0 uint32) *zzTiff {
	t := &zzTiff{b: make([]byte, n), be: be}
	if be {
		t.b[0], t.b[1], t.b[2], t.b[3] = 'M', 'M', 0, 42
	} else {
		t.b[0], t.b[1], t.b[2], t.b[3] = 'I', 'I', 42, 0
	}
	t.put32(4, ifd0)
	return t
}

func (t *zzTiff) put16(off int, v uint16) {
	if t.be {
		t.b[off], t.b[off+1] = byte(v>>8), byte(v)
	} else {
		t.b[off], t.b[off+1] = byte(v), byte(v>>8)
	}
}

func (t *zzTiff) put32(off int, v uint32) {
	if t.be {
		t.b[off], t.b[off+1], t.b[off+2], t.b[off+3] = byte(v>>24), byte(v>>16), byte(v>>8), byte(v)
	} else {
		t.b[off], t.b[off+1], t.b[off+2], t.b[off+3] = byte(v), byte(v>>8), byte(v>>16), byte(v>>24)
	}
}

func (t *zzTiff) bytes(off int, v []byte) {
	for i := range v {
		t.b[off+i] = v[i]
	}
}

// dir writes the entry count of a directory at off; entries follow at off+2+12*i, the next-IFD pointer after them.
func (t *zzTiff) dir(off, n int, next uint32) {
	t.put16(off, uint16(n))
	t.put32(off+2+12*n, next)
}

// ent writes entry i of the directory at diroff with a numeric value/offset field.
func (t *zzTiff) ent(diroff, i int, id, typ uint16, count, val uint32) {
	e := diroff + 2 + 12*i
	t.put16(e, id)
	t.put16(e+2, typ)
	t.put32(e+4, count)
	t.put32(e+8, val)
}

// entShort: SHORT count 1, value left-justified in the slot (TIFF 6.0 section 2).
func (t *zzTiff) entShort(diroff, i int, id uint16, v uint16) {
	e := diroff + 2 + 12*i
	t.put16(e, id)
	t.put16(e+2, 3)
	t.put32(e+4, 1)
	t.put16(e+8, v)
	t.b[e+10], t.b[e+11] = 0, 0
}

// entRaw writes entry i with the 4 slot bytes given verbatim (embedded BYTE/ASCII values).
func (t *zzTiff) entRaw(diroff, i int, id, typ uint16, count uint32, slot []byte) {
	e := diroff + 2 + 12*i
	t.put16(e, id)
	t.put16(e+2, typ)
	t.put32(e+4, count)
	for k := 0; k < 4; k++ {
		if k < len(slot) {
			t.b[e+8+k] = slot[k]
		} else {
			t.b[e+8+k] = 0
		}
	}
}

// hole makes entry i of the directory at diroff fully symbolic (12 arbitrary bytes).
func (t *zzTiff) hole(diroff, i int, name string) []byte {
	e := diroff + 2 + 12*i
	h := zzBytes(name, 12)
	t.bytes(e, h)
	return h
}

func (t *zzTiff) get16(b []byte) uint16 {
	if t.be {
		return uint16(b[0])<<8 | uint16(b[1])
	}
	return uint16(b[1])<<8 | uint16(b[0])
}

func (t *zzTiff) get32(b []byte) uint32 {
	if t.be {
		return uint32(b[0])<<24 | uint32(b[1])<<16 | uint32(b[2])<<8 | uint32(b[3])
	}
	return uint32(b[3])<<24 | uint32(b[2])<<16 | uint32(b[1])<<8 | uint32(b[0])
}
