package PKGNAME

// Harness support library. This file is injected (by overlay, never written into /repo) into every
// repository package that holds a zz_verif_* harness. Each function has two meanings:
//   - under gosmt (symbolic execution) calls are intercepted by name and the bodies below are ignored;
//   - natively (replay of a solver model through `go test -overlay`) the bodies read the model table.

import (
	"math"
	"syscall"
	"time"
	"unsafe"
	"encoding/json"
	"errors"
	"fmt"
	"io"
	"os"
	"runtime"
	"strings"
)

var (
	zzModel    = map[string]uint64{}
	zzFailed   []string
	zzTags     = map[string]int{}
	zzTierV    int
	zzPartV    int
	zzErrInj   = errors.New("zz: injected read failure")
	zzStreams  []*zzMemReader
	zzLevelSet func(level int8)
)

type zzAssumeFail struct{}

// zzLoad reads the model table named by $ZZ_MODEL ({"model":{name:value}, "tier":t, "part":p}).
func zzLoad() {
	f := os.Getenv("ZZ_MODEL")
	if f == "" {
		return
	}
	b, err := os.ReadFile(f)
	if err != nil {
		panic(err)
	}
	var m struct {
		Model map[string]uint64 `json:"model"`
		Tier  int               `json:"tier"`
		Part  int               `json:"part"`
	}
	if err := json.Unmarshal(b, &m); err != nil {
		panic(err)
	}
	zzModel, zzTierV, zzPartV = m.Model, m.Tier, m.Part
	if zzModel == nil {
		zzModel = map[string]uint64{}
	}
}

// zzRun executes a harness natively and describes what happened.
func zzRun(f func()) (outcome string) {
	zzLoad()
	zzFailed = nil
	defer func() {
		if r := recover(); r != nil {
			if _, ok := r.(zzAssumeFail); ok {
				outcome = "assume-failed"
				return
			}
			buf := make([]byte, 1<<14)
			buf = buf[:runtime.Stack(buf, false)]
			fn := ""
			// innermost non-runtime, non-harness frame
			lines := strings.Split(string(buf), "\n")
			for i := 0; i+1 < len(lines); i++ {
				l := lines[i]
				if strings.HasPrefix(l, "github.com/evanoberholster/imagemeta") && !strings.Contains(l, ".zz") {
					fn = l
					if j := strings.LastIndex(fn, "("); j > 0 {
						fn = fn[:j]
					}
					break
				}
			}
			outcome = fmt.Sprintf("panic: %v @ %s", r, fn)
		}
	}()
	f()
	if len(zzFailed) > 0 {
		return "assert-failed: " + strings.Join(zzFailed, " ;; ")
	}
	return "ok"
}

func zzBytes(name string, n int) []byte {
	b := make([]byte, n)
	for i := range b {
		b[i] = byte(zzModel[fmt.Sprintf("%s_%d", name, i)])
	}
	return b
}
func zzInt(name string) int       { return int(int64(zzModel[name])) }
func zzU8(name string) uint8      { return uint8(zzModel[name]) }
func zzU16(name string) uint16    { return uint16(zzModel[name]) }
func zzU32(name string) uint32    { return uint32(zzModel[name]) }
func zzU64(name string) uint64    { return zzModel[name] }
func zzI16(name string) int16     { return int16(zzModel[name]) }
func zzI32(name string) int32     { return int32(zzModel[name]) }
func zzBool(name string) bool     { return zzModel[name] != 0 }
func zzTier() int                 { return zzTierV }
func zzPart() int                 { return zzPartV }
func zzReached(tag string)        { zzTags[tag]++ }
func zzAssume(b bool) {
	if !b {
		panic(zzAssumeFail{})
	}
}
func zzAssert(b bool, msg string) {
	if !b {
		zzFailed = append(zzFailed, msg)
	}
}

// zzMemReader is the input-stream model: data[:len] then EOF (or an injected error when fail is set).
type zzMemReader struct {
	data      []byte
	pos       int
	fail      bool
	chunked   bool
	arb       int
	name      string
	nread     int
	requested int
}

func zzMin(a, b int) int {
	if a < b {
		return a
	}
	return b
}

func (r *zzMemReader) Read(p []byte) (int, error) {
	r.requested += len(p)
	if len(p) == 0 {
		return 0, nil
	}
	avail := len(r.data) - r.pos
	if avail <= 0 {
		if r.fail {
			return 0, zzErrInj
		}
		return 0, io.EOF
	}
	n := zzMin(len(p), avail)
	var err error
	if r.chunked && r.nread < r.arb {
		k := int(zzModel[fmt.Sprintf("%s_c%d", r.name, r.nread)])
		if k < 1 {
			k = 1
		}
		if k < n {
			n = k
		}
		if n == avail && zzModel[r.name+"_eofdata"] != 0 {
			err = io.EOF
		}
	}
	r.nread++
	copy(p, r.data[r.pos:r.pos+n])
	r.pos += n
	return n, err
}

func (r *zzMemReader) Seek(off int64, whence int) (int64, error) {
	var np int64
	switch whence {
	case 0:
		np = off
	case 1:
		np = int64(r.pos) + off
	case 2:
		np = int64(len(r.data)) + off
	default:
		return 0, errors.New("zz: bad whence")
	}
	if np < 0 {
		return 0, errors.New("zz: negative position")
	}
	r.pos = int(np)
	return np, nil
}

func (r *zzMemReader) ReadAt(p []byte, off int64) (int, error) {
	r.requested += len(p)
	if off < 0 {
		return 0, errors.New("zz: negative offset")
	}
	if off >= int64(len(r.data)) {
		if r.fail {
			return 0, zzErrInj
		}
		return 0, io.EOF
	}
	n := copy(p, r.data[off:])
	if n < len(p) {
		if r.fail {
			return n, zzErrInj
		}
		return n, io.EOF
	}
	if off+int64(n) == int64(len(r.data)) && zzModel[r.name+"_eofat"] != 0 {
		return n, io.EOF // legal for an io.ReaderAt: a full read that ends exactly at the end of the input
	}
	return n, nil
}

// Pos is the model's current stream position; Requested the number of bytes asked from it so far.
func (r *zzMemReader) Pos() int       { return r.pos }
func (r *zzMemReader) Requested() int { return r.requested }
func (r *zzMemReader) Len() int       { return len(r.data) }

// zzStream: a free stream of symbolic length <= max; after the last byte EOF or (symbolically) an error.
func zzStream(name string, max int) *zzMemReader {
	l := int(zzModel[name+"_len"])
	if l > max {
		l = max
	}
	b := make([]byte, l)
	for i := range b {
		b[i] = byte(zzModel[fmt.Sprintf("%s_%d", name, i)])
	}
	r := &zzMemReader{data: b, fail: zzModel[name+"_fail"] != 0, name: name}
	zzStreams = append(zzStreams, r)
	return r
}

// zzReaderOf: the stream is exactly b, then EOF.
func zzReaderOf(b []byte) *zzMemReader {
	r := &zzMemReader{data: append([]byte(nil), b...), name: "r"}
	zzStreams = append(zzStreams, r)
	return r
}

// zzReaderTrunc: the stream is b[:L] with L symbolic (every truncation point), then EOF or an error.
func zzReaderTrunc(b []byte, name string) *zzMemReader {
	l := int(zzModel[name+"_len"])
	if l > len(b) {
		l = len(b)
	}
	r := &zzMemReader{data: append([]byte(nil), b[:l]...), fail: zzModel[name+"_fail"] != 0, name: name}
	zzStreams = append(zzStreams, r)
	return r
}

// zzChunkedReaderOf: the stream is exactly b, delivered in arbitrary legal short reads.
func zzChunkedReaderOf(b []byte, name string) *zzMemReader {
	r := &zzMemReader{data: append([]byte(nil), b...), chunked: true, arb: 3, name: name}
	zzStreams = append(zzStreams, r)
	return r
}

// zzChunkedReaderOf2: as zzChunkedReaderOf with the first two reads arbitrary (for longer streams)
func zzChunkedReaderOf2(b []byte, name string) *zzMemReader {
	r := zzChunkedReaderOf(b, name)
	r.arb = 2
	return r
}

// zzAllocated is the ghost count of bytes allocated so far (native: runtime statistics).
func zzAllocated() int {
	var ms runtime.MemStats
	runtime.ReadMemStats(&ms)
	return int(ms.TotalAlloc)
}

// zzStdout is the ghost count of writes to fd 1/2 (native: not observable in-process; 0).
func zzStdout() int { return 0 }

// zzPoolHavoc: from now on sync.Pool.Get returns objects with arbitrary contents (native: no-op).
func zzPoolHavoc() {}

// zzLogLevel makes the zerolog level of all library loggers the (symbolic) value name.
func zzLogLevel(name string) {
	if zzLevelSet != nil {
		zzLevelSet(int8(zzModel[name]))
	}
}

// zzConc: under gosmt, case split over every feasible value of x (at most max); natively the identity.
func zzConc(x uint64, max int) uint64 { return x }

func zzF32bits(f float32) uint32 { return math.Float32bits(f) }
func zzF64bits(f float64) uint64 { return math.Float64bits(f) }

// zzExpectSilent: from now on any write to fd 1/2 by the library is a finding (native: observed by the replay driver).
func zzExpectSilent() {}

// zzF32s: n arbitrary float32 values (bit patterns name_i); NaN patterns are excluded (payload propagation is not part
// of the claim).
func zzF32s(name string, n int) []float32 {
	f := make([]float32, n)
	for i := range f {
		if v, ok := zzModel[fmt.Sprintf("%s_%d", name, i)]; ok {
			f[i] = math.Float32frombits(uint32(v))
		} else {
			f[i] = float32((i*2654435761)%1009) / 8 // not part of the model (large vectors): a fixed pattern
		}
		if f[i] != f[i] {
			f[i] = 1
		}
	}
	return f
}

func zzDump(name string, f float32) {}

func zzDiff(a, b float32) {}

// zzIgnoreZeroSign: from now on the engine identifies -0.0 and +0.0 in float additions (native: no-op).
func zzIgnoreZeroSign() {}

// zzF64s: n arbitrary float64 values (bit patterns name_i), NaN excluded.
func zzF64s(name string, n int) []float64 {
	f := make([]float64, n)
	for i := range f {
		if v, ok := zzModel[fmt.Sprintf("%s_%d", name, i)]; ok {
			f[i] = math.Float64frombits(v)
		} else {
			f[i] = float64((i*2654435761)%1009) / 8 // not part of the model (large vectors): a fixed pattern
		}
		if f[i] != f[i] {
			f[i] = 1
		}
	}
	return f
}

// zzDCTII32(in, out, eps, epsRound): every out[k] is within (eps+epsRound)*||in||_1 of the unscaled DCT-II of in,
// sum_j in[j]*cos(pi*(2j+1)*k/(2n)). Engine: in holds the kernel's input variables and out its output terms; read over
// the reals (exact rational coefficients) the kernel is within eps*||x||_1 of the DCT-II for every real vector (one LRA
// query per output), and the running bound of the rounding error of the float evaluation is at most epsRound*||x||_1.
// Native: evaluated in float64 on the given vectors.
func zzDCTII32(in, out []float32, eps, epsRound float64) bool {
	a, b := make([]float64, len(in)), make([]float64, len(out))
	for i := range in {
		a[i], b[i] = float64(in[i]), float64(out[i])
	}
	return zzDCTII64(a, b, eps, epsRound)
}

func zzDCTII64(in, out []float64, eps, epsRound float64) bool {
	n := len(in)
	var l1 float64
	for _, x := range in {
		l1 += math.Abs(x)
	}
	for k := 0; k < n; k++ {
		var s float64
		for j := 0; j < n; j++ {
			s += in[j] * math.Cos(math.Pi*float64(2*j+1)*float64(k)/float64(2*n))
		}
		if math.Abs(out[k]-s) > (eps+epsRound)*l1 {
			return false
		}
	}
	return true
}

// zzGuardAllocF32: a zeroed []float32 of n elements. Native: the slice ends exactly at the end of a mapped page and the
// next page is inaccessible (and, when the slice fills whole pages, so is the page before it), so that a load or store
// of the assembly beyond the slice faults instead of silently touching neighbouring memory.
func zzGuardAllocF32(n int) []float32 {
	const pg = 4096
	sz := 4 * n
	pages := (sz + pg - 1) / pg
	mem, err := syscall.Mmap(-1, 0, (pages+2)*pg, syscall.PROT_READ|syscall.PROT_WRITE, syscall.MAP_ANON|syscall.MAP_PRIVATE)
	if err != nil {
		return make([]float32, n)
	}
	_ = syscall.Mprotect(mem[(pages+1)*pg:], syscall.PROT_NONE)
	if sz%pg == 0 {
		_ = syscall.Mprotect(mem[:pg], syscall.PROT_NONE)
	}
	start := (pages+1)*pg - sz
	return unsafe.Slice((*float32)(unsafe.Pointer(&mem[start])), n)
}

// zzGuardCopy: a copy of g in guarded memory (see zzGuardAllocF32)
func zzGuardCopy(g []float32) []float32 {
	a := zzGuardAllocF32(len(g))
	copy(a, g)
	return a
}

// zzB2I: 1 if b, else 0 (the engine builds an if-then-else term instead of forking the path)
func zzB2I(b bool) int {
	if b {
		return 1
	}
	return 0
}

// zzSameTerm: the engine answers whether the two values were computed by the same operations on the same inputs
// (hash-consed term identity); native: identical bit patterns.
func zzSameTerm(a, b float64) bool { return math.Float64bits(a) == math.Float64bits(b) }

// zzSameTime: the engine answers whether the two time values were built by the same (uninterpreted) time functions
// from the same arguments; native: the same instant.
func zzSameTime(a, b time.Time) bool { return a.Equal(b) }
