package tiff

import (
	"bufio"

	"github.com/evanoberholster/imagemeta/imagetype"
	"github.com/evanoberholster/imagemeta/meta"
	"github.com/evanoberholster/imagemeta/meta/utils"
)

// C12 - the TIFF header search reports the first TIFF signature at any offset, exactly.

// zzSpecSig: independent statement of "a TIFF signature starts at b[i]" (TIFF 6.0, section 2).
func zzSpecSig(b []byte, i int) bool {
	return (b[i] == 0x49 && b[i+1] == 0x49 && b[i+2] == 0x2a && b[i+3] == 0x00) ||
		(b[i] == 0x4d && b[i+1] == 0x4d && b[i+2] == 0x00 && b[i+3] == 0x2a)
}

func zzC12_bounded_N() int { return 13 }

// prefix of n = part arbitrary bytes (every byte value), then a header of 32 bytes whose first 4 bytes are a
// signature, then `rest` arbitrary bytes; precondition: the first signature of the stream starts at n.
func zzC12_bounded() {
	n := zzPart()
	if zzTier() == 0 && n > 9 {
		zzReached("end")
		return
	}
	const rest = 3
	b := zzBytes("b", n+32+rest)
	for i := 0; i < n; i++ {
		zzAssume(!zzSpecSig(b, i))
	}
	zzAssume(zzSpecSig(b, n))
	br := bufio.NewReaderSize(zzReaderOf(b), 4096)
	h, err := ScanTiffHeader(br, imagetype.ImageUnknown)
	zzAssert(err == nil, "a stream holding a signature followed by 28 more bytes is found")
	zzAssert(int(h.TiffHeaderOffset) == n, "the reported offset is the offset of the first signature")
	if b[n] == 0x49 {
		zzAssert(h.ByteOrder == utils.LittleEndian, "II signature gives little-endian")
		zzAssert(h.FirstIfdOffset == uint32(b[n+4])|uint32(b[n+5])<<8|uint32(b[n+6])<<16|uint32(b[n+7])<<24, "first-directory offset is the little-endian long after the signature")
	} else {
		zzAssert(h.ByteOrder == utils.BigEndian, "MM signature gives big-endian")
		zzAssert(h.FirstIfdOffset == uint32(b[n+7])|uint32(b[n+6])<<8|uint32(b[n+5])<<16|uint32(b[n+4])<<24, "first-directory offset is the big-endian long after the signature")
	}
	zzAssert(h.FirstIfd == 1 && h.ExifLength == 0, "root directory, unknown length")
	// the stream is left positioned at the reported header
	nb, perr := br.Peek(8)
	zzAssert(perr == nil && len(nb) == 8, "header still readable")
	same := true
	for i := 0; i < 8; i++ {
		same = same && nb[i] == b[n+i]
	}
	zzAssert(same, "the reader is positioned at the reported header")
	zzReached("end")
}

// a stream without any signature yields ErrNoExif (every stream length up to N, any terminal error).
func zzC12_nosig() {
	N := 34
	if zzTier() == 1 {
		N = 37
	}
	r := zzStream("d", N)
	b := make([]byte, N)
	k, _ := r.ReadAt(b, 0)
	for i := 0; i+4 <= N; i++ {
		if i+4 <= k {
			zzAssume(!zzSpecSig(b, i))
		}
	}
	_, err := ScanTiffHeader(bufio.NewReaderSize(r, 4096), imagetype.ImageUnknown)
	zzAssert(err == meta.ErrNoExif, "no signature in the stream gives ErrNoExif")
	zzReached("end")
}

// a non-bufio reader is wrapped, same results (small prefix).
func zzC12_plainreader() {
	b := zzBytes("b", 2+32)
	zzAssume(!zzSpecSig(b, 0) && !zzSpecSig(b, 1) && zzSpecSig(b, 2))
	h, err := ScanTiffHeader(zzReaderOf(b), imagetype.ImageUnknown)
	zzAssert(err == nil && h.TiffHeaderOffset == 2, "plain io.Reader: first signature at 2 is reported")
	zzReached("end")
}
