package tiff

import (
	"bufio"

	"github.com/evanoberholster/imagemeta/imagetype"
)

// C01/tiff: arbitrary stream up to N bytes, every truncation and terminal error, buffered and plain readers.
func zzC01_tiff_free() {
	N := 35
	if zzTier() == 1 {
		N = 38
	}
	r := zzStream("d", N)
	_, _ = ScanTiffHeader(bufio.NewReaderSize(r, 4096), imagetype.ImageUnknown)
	zzAssert(r.Requested() <= 4*r.Len()+65536, "bytes requested from the reader stay within 4*len+64KiB")
	zzReached("end")
}

func zzC01_tiff_plain() {
	r := zzStream("d", 33)
	_, _ = ScanTiffHeader(r, imagetype.ImageTiff)
	zzReached("end")
}
