package main

import (
	"fmt"
	"go/types"

	"golang.org/x/tools/go/ssa"
)

var asmCache *asmFile

// callAsm executes a body-less repository function (an assembly routine of transforms32) with asmx.
// Returns false when fn is not such a routine.
func (m *Machine) callAsm(fn *ssa.Function, args []Value, call ssa.Instruction, isDefer bool) bool {
	if fn.Pkg == nil || !isRepoPkg(fn.Pkg) {
		return false
	}
	if asmCache == nil {
		f, err := loadAsm()
		if err != nil {
			panic(unsupported{"cannot parse the assembly file: " + err.Error()})
		}
		asmCache = f
	}
	af := asmCache.funcs[fn.Name()]
	if af == nil {
		return false
	}
	s := newAsmState(asmCache)
	s.rlen["stack"] = int64(af.frame)
	for name, b := range asmCache.rodata {
		s.rlen["rodata:"+name] = int64(len(b))
	}
	// lay the arguments out as on the Go ABI0 stack frame
	off := int64(0)
	type back struct {
		region string
		sl     Slice
		bytes  bool
	}
	var backs []back
	sig := fn.Signature
	for i := 0; i < sig.Params().Len(); i++ {
		switch a := args[i].(type) {
		case Slice:
			region := fmt.Sprintf("arg%d", i)
			n := int64(m.conc(a.Len, 1<<20))
			o := int64(m.conc(a.Off, 1<<20))
			s.mem[region] = map[int64]*T{}
			if a.BA != nil {
				s.rlen[region] = n
				s.bytes[region] = true
				for k := int64(0); k < n; k++ {
					s.mem[region][k] = a.BA.Read(BV(64, uint64(o+k)))
				}
				backs = append(backs, back{region, a, true})
			} else if a.AL != nil {
				s.rlen[region] = 4 * n
				for k := int64(0); k < n; k++ {
					s.mem[region][4*k] = m.load(a.AL.sub[o+k]).(*T)
				}
				backs = append(backs, back{region, a, false})
			} else {
				s.rlen[region] = 0
			}
			s.fp[fmt.Sprint(off)] = aval{ptr: true, region: region}
			s.fp[fmt.Sprint(off+8)] = aval{v: n}
			s.fp[fmt.Sprint(off+16)] = aval{v: int64(m.conc(a.Cap, 1<<20))}
			off += 24
		case *T:
			v := m.conc(a, 1<<16)
			s.fp[fmt.Sprint(off)] = aval{v: int64(v)}
			off += 8
		default:
			panic(unsupported{fmt.Sprintf("assembly argument of type %T", a)})
		}
	}
	var retArr *types.Array
	if sig.Results().Len() == 1 {
		if ra, ok := sig.Results().At(0).Type().Underlying().(*types.Array); ok {
			retArr = ra
			s.retOff = off
			s.rlen["ret"] = 4 * ra.Len()
		}
	}
	func() {
		defer func() {
			if r := recover(); r != nil {
				if e, ok := r.(asmErr); ok {
					panic(unsupported{e.msg})
				}
				panic(r)
			}
		}()
		s.run(af)
	}()
	// memory-safety obligations of the routine
	for _, a := range s.access {
		n := s.rlen[a.region]
		if a.off < 0 || a.off+int64(a.width) > n {
			kind := "load"
			if a.store {
				kind = "store"
			}
			m.reportSite("asm-oob", fmt.Sprintf("%s @asm_x86.s:%d", fn.Name(), a.line), fmt.Sprintf("asm-oob: %s %s outside %s", fn.Name(), kind, regionName(fn, a.region)), fmt.Sprintf("assembly %s outside the %s slice (asm_x86.s:%d)", kind, regionName(fn, a.region), a.line), nil)
		}
		if a.align > 0 && a.off%int64(a.align) != 0 {
			m.asmNotes = append(m.asmNotes, fmt.Sprintf("aligned store at offset %d (asm_x86.s:%d) requires the slice base to be %d-byte aligned", a.off, a.line, a.align))
		}
	}
	m.asmAccesses += len(s.access)
	m.asmSteps += s.steps
	// write results back
	for _, b := range backs {
		for k, v := range s.mem[b.region] {
			if !s.written[b.region][k] {
				continue
			}
			if b.bytes {
				o := int64(m.conc(b.sl.Off, 1<<20))
				m.baStore(b.sl.BA, BV(64, uint64(o+k)), v)
			} else {
				o := int64(m.conc(b.sl.Off, 1<<20))
				idx := o + k/4
				if idx >= 0 && idx < int64(len(b.sl.AL.sub)) {
					m.store(b.sl.AL.sub[idx], v)
				}
			}
		}
	}
	var res Value
	if retArr != nil {
		arr := Array{E: make([]Value, retArr.Len())}
		for k := int64(0); k < retArr.Len(); k++ {
			if v, ok := s.mem["ret"][4*k]; ok {
				arr.E[k] = v
			} else {
				arr.E[k] = BV(32, 0)
			}
		}
		res = arr
	}
	m.finishCall(call, res, isDefer)
	return true
}

func regionName(fn *ssa.Function, region string) string {
	var i int
	if _, err := fmt.Sscanf(region, "arg%d", &i); err == nil && i < fn.Signature.Params().Len() {
		return fn.Signature.Params().At(i).Name()
	}
	return region
}
