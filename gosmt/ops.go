package main

import (
	"strings"
	"fmt"
	"go/token"
	"go/types"
	"math"

	"golang.org/x/tools/go/ssa"
)

func (m *Machine) to64(t *T, ty types.Type) *T {
	if t.W == 64 {
		return t
	}
	_, signed, _ := intWidth(ty)
	if signed {
		return SExt(64, t)
	}
	return ZExt(64, t)
}

var fpIgnoreZeroSign bool

func fuf(name string, w int, a ...*T) *T { return App(name, w, a...) }

func (m *Machine) binop(op token.Token, xt types.Type, a, b Value, yt types.Type) Value {
	switch x := a.(type) {
	case *T:
		y := b.(*T)
		if x.W == 0 { // bools
			switch op {
			case token.EQL:
				return Eq(x, y)
			case token.NEQ:
				return Not(Eq(x, y))
			case token.AND, token.LAND:
				return And(x, y)
			case token.OR, token.LOR:
				return Or(x, y)
			}
			panic(unsupported{"bool op " + op.String()})
		}
		if fw := floatWidth(xt); fw > 0 {
			return m.floatOp(op, fw, x, y)
		}
		w, signed, _ := intWidth(xt)
		switch op {
		case token.ADD:
			return Bin("bvadd", x, y)
		case token.SUB:
			return Bin("bvsub", x, y)
		case token.MUL:
			return Bin("bvmul", x, y)
		case token.QUO, token.REM:
			m.check(Not(Eq(y, BV(w, 0))), "integer divide by zero")
			n := map[bool]map[token.Token]string{true: {token.QUO: "bvsdiv", token.REM: "bvsrem"}, false: {token.QUO: "bvudiv", token.REM: "bvurem"}}[signed][op]
			return Bin(n, x, y)
		case token.AND:
			return Bin("bvand", x, y)
		case token.OR:
			return Bin("bvor", x, y)
		case token.XOR:
			return Bin("bvxor", x, y)
		case token.AND_NOT:
			return Bin("bvand", x, Bin("bvxor", y, BV(w, mask(w))))
		case token.SHL, token.SHR:
			// shift count: unsigned of any width (signed negative would panic; ignored here)
			var cnt *T
			if y.W > w {
				big := Not(Cmp("bvult", y, BV(y.W, uint64(w))))
				cnt = Ite(big, BV(w, uint64(w)), Extract(w-1, 0, y))
			} else {
				cnt = ZExt(w, y)
			}
			// SMT shifts by >= w give 0 (shl, lshr) / sign fill (ashr): same as Go
			if op == token.SHL {
				return Bin("bvshl", x, cnt)
			}
			if signed {
				return Bin("bvashr", x, cnt)
			}
			return Bin("bvlshr", x, cnt)
		case token.EQL:
			return Eq(x, y)
		case token.NEQ:
			return Not(Eq(x, y))
		case token.LSS:
			if signed {
				return Cmp("bvslt", x, y)
			}
			return Cmp("bvult", x, y)
		case token.LEQ:
			if signed {
				return Cmp("bvsle", x, y)
			}
			return Cmp("bvule", x, y)
		case token.GTR:
			if signed {
				return Cmp("bvslt", y, x)
			}
			return Cmp("bvult", y, x)
		case token.GEQ:
			if signed {
				return Cmp("bvsle", y, x)
			}
			return Cmp("bvule", y, x)
		}
	case Str:
		y := b.(Str)
		switch op {
		case token.ADD:
			return Str{B: append(append([]*T(nil), x.B...), y.B...)}
		case token.EQL, token.NEQ:
			var r *T
			if len(x.B) != len(y.B) {
				r = BoolC(false)
			} else {
				r = BoolC(true)
				for i := range x.B {
					r = And(r, Eq(x.B[i], y.B[i]))
				}
			}
			if op == token.NEQ {
				return Not(r)
			}
			return r
		}
		panic(unsupported{"string op " + op.String()})
	case Ptr:
		y := b.(Ptr)
		if x.L != nil && y.L != nil && x.L.opaqueID != nil && y.L.opaqueID != nil {
			e := Eq(x.L.opaqueID, y.L.opaqueID)
			if op == token.NEQ {
				return Not(e)
			}
			return e
		}
		eq := x == y || (x.Nil && y.Nil)
		if x.BA != nil && y.BA != nil && x.BA == y.BA {
			e := Eq(x.Idx, y.Idx)
			if op == token.NEQ {
				return Not(e)
			}
			return e
		}
		if op == token.NEQ {
			return BoolC(!eq)
		}
		return BoolC(eq)
	case Iface:
		y := b.(Iface)
		var eq bool
		switch {
		case x.T == nil || y.T == nil:
			eq = x.T == nil && y.T == nil
		case !types.Identical(x.T, y.T):
			eq = false
		default:
			xp, ok1 := x.V.(Ptr)
			yp, ok2 := y.V.(Ptr)
			if ok1 && ok2 {
				eq = xp == yp
			} else if xs, ok := x.V.(*T); ok {
				e := Eq(xs, y.V.(*T))
				if op == token.NEQ {
					return Not(e)
				}
				return e
			} else {
				panic(unsupported{"interface comparison of non-pointer dynamic values"})
			}
		}
		if op == token.NEQ {
			return BoolC(!eq)
		}
		return BoolC(eq)
	case Slice:
		// only comparison with nil is legal
		y := b.(Slice)
		xn := x.BA == nil && x.AL == nil && x.NilC == nil
		yn := y.BA == nil && y.AL == nil && y.NilC == nil
		if !(xn || yn) {
			panic(unsupported{"slice comparison"})
		}
		eq := And(x.isNilTerm(), y.isNilTerm())
		if op == token.NEQ {
			return Not(eq)
		}
		return eq
	case Func:
		y := b.(Func)
		eq := x.Fn == nil && y.Fn == nil && x.Name == "" && y.Name == ""
		if op == token.NEQ {
			return BoolC(!eq)
		}
		return BoolC(eq)
	case MapV:
		y := b.(MapV)
		eq := x.M == nil && y.M == nil
		if op == token.NEQ {
			return BoolC(!eq)
		}
		return BoolC(eq)
	case Struct:
		y := b.(Struct)
		r := BoolC(true)
		for i := range x.F {
			st := xt.Underlying().(*types.Struct)
			r = And(r, m.binop(token.EQL, st.Field(i).Type(), x.F[i], y.F[i], st.Field(i).Type()).(*T))
		}
		if op == token.NEQ {
			return Not(r)
		}
		return r
	case Array:
		y := b.(Array)
		et := xt.Underlying().(*types.Array).Elem()
		r := BoolC(true)
		for i := range x.E {
			r = And(r, m.binop(token.EQL, et, x.E[i], y.E[i], et).(*T))
		}
		if op == token.NEQ {
			return Not(r)
		}
		return r
	}
	panic(unsupported{fmt.Sprintf("binop %s on %T", op, a)})
}

func (m *Machine) floatOp(op token.Token, w int, x, y *T) Value {
	if x.IsC && y.IsC {
		if w == 32 {
			a, b := math.Float32frombits(uint32(x.C)), math.Float32frombits(uint32(y.C))
			switch op {
			case token.ADD:
				return BV(32, uint64(math.Float32bits(a+b)))
			case token.SUB:
				return BV(32, uint64(math.Float32bits(a-b)))
			case token.MUL:
				return BV(32, uint64(math.Float32bits(a*b)))
			case token.QUO:
				return BV(32, uint64(math.Float32bits(a/b)))
			case token.EQL:
				return BoolC(a == b)
			case token.NEQ:
				return BoolC(a != b)
			case token.LSS:
				return BoolC(a < b)
			case token.LEQ:
				return BoolC(a <= b)
			case token.GTR:
				return BoolC(a > b)
			case token.GEQ:
				return BoolC(a >= b)
			}
		} else {
			a, b := math.Float64frombits(x.C), math.Float64frombits(y.C)
			switch op {
			case token.ADD:
				return BV(64, math.Float64bits(a+b))
			case token.SUB:
				return BV(64, math.Float64bits(a-b))
			case token.MUL:
				return BV(64, math.Float64bits(a*b))
			case token.QUO:
				return BV(64, math.Float64bits(a/b))
			case token.EQL:
				return BoolC(a == b)
			case token.NEQ:
				return BoolC(a != b)
			case token.LSS:
				return BoolC(a < b)
			case token.LEQ:
				return BoolC(a <= b)
			case token.GTR:
				return BoolC(a > b)
			case token.GEQ:
				return BoolC(a >= b)
			}
		}
	}
	sfx := fmt.Sprint(w)
	switch op {
	case token.ADD:
		// IEEE-754 (round to nearest): x + (+0) = x except (-0) + (+0) = +0 ; x + (-0) = x (NaN payloads aside)
		signBit := uint64(1) << uint(w-1)
		for _, p := range [][2]*T{{x, y}, {y, x}} {
			if p[1].IsC && p[1].C == 0 {
				if fpIgnoreZeroSign {
					return p[0] // -0.0 and +0.0 identified (stated abstraction of the C18 lane equalities)
				}
				return Ite(Eq(p[0], BV(w, signBit)), BV(w, 0), p[0])
			}
			if p[1].IsC && p[1].C == signBit {
				return p[0]
			}
		}
		if x.id > y.id {
			x, y = y, x
		}
		return fuf("fadd"+sfx, w, x, y)
	case token.MUL:
		if x.id > y.id {
			x, y = y, x
		}
		return fuf("fmul"+sfx, w, x, y)
	case token.SUB:
		return fuf("fsub"+sfx, w, x, y)
	case token.QUO:
		return fuf("fdiv"+sfx, w, x, y)
	case token.EQL:
		return floatEq(w, x, y)
	case token.NEQ:
		return Not(floatEq(w, x, y))
	case token.LSS:
		return floatLess(w, x, y, false)
	case token.GTR:
		return floatLess(w, y, x, false)
	case token.LEQ:
		return floatLess(w, x, y, true)
	case token.GEQ:
		return floatLess(w, y, x, true)
	}
	panic(unsupported{"float op " + op.String()})
}

// floatIsNaN is exact on the bit pattern: exponent all ones and a non-zero mantissa.
func floatIsNaN(w int, x *T) *T {
	if w == 32 {
		return And(Eq(Extract(30, 23, x), BV(8, 0xff)), Not(Eq(Extract(22, 0, x), BV(23, 0))))
	}
	return And(Eq(Extract(62, 52, x), BV(11, 0x7ff)), Not(Eq(Extract(51, 0, x), BV(52, 0))))
}

// floatLess is the IEEE-754 order, exact on the bit patterns: a pattern is mapped to an unsigned key that is monotone
// in the value (negative: all bits inverted, non-negative: sign bit set); the two zeros compare equal; any comparison
// with a NaN is false.
func floatLess(w int, x, y *T, orEqual bool) *T {
	sign := BV(w, uint64(1)<<uint(w-1))
	key := func(t *T) *T {
		neg := Eq(Bin("bvand", t, sign), sign)
		return Ite(neg, Bin("bvxor", t, BV(w, mask(w))), Bin("bvor", t, sign))
	}
	absMask := BV(w, mask(w)>>1)
	bothZero := And(Eq(Bin("bvand", x, absMask), BV(w, 0)), Eq(Bin("bvand", y, absMask), BV(w, 0)))
	noNaN := And(Not(floatIsNaN(w, x)), Not(floatIsNaN(w, y)))
	if orEqual {
		return And(noNaN, Or(Cmp("bvule", key(x), key(y)), bothZero))
	}
	return And(noNaN, And(Cmp("bvult", key(x), key(y)), Not(bothZero)))
}

// floatEq: equal bit patterns are equal unless NaN; +0 == -0; NaN equals nothing; otherwise different.
func floatEq(w int, x, y *T) *T {
	if x.id > y.id {
		x, y = y, x
	}
	sameBits := Eq(x, y)
	absMask := BV(w, mask(w)>>1)
	bothZero := And(Eq(Bin("bvand", x, absMask), BV(w, 0)), Eq(Bin("bvand", y, absMask), BV(w, 0)))
	return And(Or(sameBits, bothZero), And(Not(floatIsNaN(w, x)), Not(floatIsNaN(w, y))))
}

func (m *Machine) unop(x *ssa.UnOp, v Value) Value {
	switch x.Op {
	case token.MUL:
		return m.loadPtr(v.(Ptr))
	case token.NOT:
		return Not(v.(*T))
	case token.SUB:
		t := v.(*T)
		if fw := floatWidth(x.X.Type()); fw > 0 {
			return Bin("bvxor", t, BV(fw, uint64(1)<<uint(fw-1)))
		}
		return Bin("bvsub", BV(t.W, 0), t)
	case token.XOR:
		t := v.(*T)
		return Bin("bvxor", t, BV(t.W, mask(t.W)))
	}
	panic(unsupported{"unop " + x.Op.String()})
}

func (m *Machine) convert(from, to types.Type, v Value) Value {
	fw, fsigned, fint := intWidth(from)
	tw, _, tint := intWidth(to)
	ff, tf := floatWidth(from), floatWidth(to)
	switch {
	case fint && tint:
		t := v.(*T)
		if tw <= fw {
			return Extract(tw-1, 0, t)
		}
		if fsigned {
			return SExt(tw, t)
		}
		return ZExt(tw, t)
	case fint && tf > 0:
		t := v.(*T)
		if t.IsC {
			var f float64
			if fsigned {
				f = float64(sx(fw, t.C))
			} else {
				f = float64(t.C)
			}
			if tf == 32 {
				return BV(32, uint64(math.Float32bits(float32(f))))
			}
			return BV(64, math.Float64bits(f))
		}
		s := "u"
		if fsigned {
			s = "s"
		}
		return fuf(fmt.Sprintf("%sitof%d_%d", s, fw, tf), tf, t)
	case ff > 0 && tf > 0:
		t := v.(*T)
		if ff == tf {
			return t
		}
		if t.IsC {
			if tf == 32 {
				return BV(32, uint64(math.Float32bits(float32(math.Float64frombits(t.C)))))
			}
			return BV(64, math.Float64bits(float64(math.Float32frombits(uint32(t.C)))))
		}
		return fuf(fmt.Sprintf("fcvt%d_%d", ff, tf), tf, t)
	case ff > 0 && tint:
		t := v.(*T)
		return fuf(fmt.Sprintf("ftoi%d_%d", ff, tw), tw, t)
	}
	// string <-> []byte
	if _, ok := to.Underlying().(*types.Basic); ok {
		if s, ok := v.(Slice); ok { // []byte -> string
			n := int(m.conc(s.Len, 4096))
			m.ghostAlloc(BV(64, uint64(n)))
			r := Str{B: make([]*T, n)}
			for i := 0; i < n; i++ {
				r.B[i] = s.BA.Read(Bin("bvadd", s.Off, BV(64, uint64(i))))
			}
			return r
		}
		if s, ok := v.(Str); ok {
			return s
		}
		if t, ok := v.(*T); ok && fint { // int -> string (rune)
			_ = t
			panic(unsupported{"int to string conversion"})
		}
	}
	if _, ok := to.Underlying().(*types.Slice); ok {
		if s, ok := v.(Str); ok { // string -> []byte
			ba := newZeroBA(len(s.B))
			m.ghostAlloc(BV(64, uint64(len(s.B))))
			for i, b := range s.B {
				m.baStore(ba, BV(64, uint64(i)), b)
			}
			n := BV(64, uint64(len(s.B)))
			return Slice{BA: ba, Off: BV(64, 0), Len: n, Cap: n}
		}
		return v
	}
	if _, ok := to.Underlying().(*types.Pointer); ok {
		return v
	}
	panic(unsupported{fmt.Sprintf("convert %s -> %s", from, to)})
}

func (m *Machine) boundsIdx(idx, n *T, signedIdx bool, what string) {
	// 0 <= idx < n  (idx, n are BV64; treat as signed compare on idx)
	ok := Cmp("bvult", idx, n) // unsigned compare also rejects negatives
	m.check(ok, what)
}

func (m *Machine) indexAddr(base Value, idx *T, it types.Type) Value {
	i := m.to64(idx, it)
	switch b := base.(type) {
	case Slice:
		m.boundsIdx(i, b.Len, true, "index out of range")
		if b.BA != nil {
			return Ptr{BA: b.BA, Idx: Bin("bvadd", b.Off, i)}
		}
		ai := Bin("bvadd", b.Off, i)
		if ai.IsC {
			return Ptr{L: b.AL.sub[ai.C]}
		}
		if len(b.AL.sub) > 300 || (len(b.AL.sub) > 0 && b.AL.sub[0].sub != nil) {
			k := m.conc(ai, 512)
			return Ptr{L: b.AL.sub[k]}
		}
		return Ptr{AL: b.AL, Idx: ai}
	case Ptr:
		if b.Nil {
			m.raiseRuntime("nil pointer dereference")
		}
		l := b.L
		if l == nil {
			panic(unsupported{"IndexAddr through indirect pointer"})
		}
		if l.ba != nil {
			m.boundsIdx(i, BV(64, uint64(l.ba.n)), true, "index out of range")
			return Ptr{BA: l.ba, Idx: i}
		}
		m.boundsIdx(i, BV(64, uint64(len(l.sub))), true, "index out of range")
		if i.IsC {
			return Ptr{L: l.sub[i.C]}
		}
		if len(l.sub) > 300 || (len(l.sub) > 0 && l.sub[0].sub != nil) {
			// big arrays and arrays of structs/arrays: case split on the index
			k := m.conc(i, 512)
			return Ptr{L: l.sub[k]}
		}
		return Ptr{AL: l, Idx: i}
	}
	panic(unsupported{fmt.Sprintf("IndexAddr on %T", base)})
}

func (m *Machine) indexValue(base Value, idx *T, it types.Type) Value {
	i := m.to64(idx, it)
	switch b := base.(type) {
	case Array:
		m.boundsIdx(i, BV(64, uint64(len(b.E))), true, "index out of range")
		if i.IsC {
			return b.E[i.C]
		}
		if r := constTable(i, b.E); r != nil {
			return r
		}
		var r Value
		for k := len(b.E) - 1; k >= 0; k-- {
			if r == nil {
				r = b.E[k]
			} else {
				r = iteValue(Eq(i, BV(64, uint64(k))), b.E[k], r)
			}
		}
		return r
	}
	if st, ok := base.(Str); ok {
		return m.strIndex(st, i)
	}
	panic(unsupported{fmt.Sprintf("Index on %T", base)})
}

func (m *Machine) strIndex(s Str, i *T) *T {
	m.boundsIdx(i, BV(64, uint64(len(s.B))), true, "index out of range")
	if i.IsC {
		return s.B[i.C]
	}
	if constLeafIte(i, 300) {
		allC := true
		for _, b := range s.B {
			if !b.IsC {
				allC = false
				break
			}
		}
		if allC {
			return mapIteLeaves(i, func(c *T) *T {
				if c.C < uint64(len(s.B)) {
					return s.B[c.C]
				}
				return BV(8, 0)
			})
		}
	}
	{
		vs := make([]Value, len(s.B))
		for k := range vs {
			vs[k] = s.B[k]
		}
		if r := constTable(i, vs); r != nil {
			return r
		}
	}
	var r *T
	for k := len(s.B) - 1; k >= 0; k-- {
		if r == nil {
			r = s.B[k]
		} else {
			r = Ite(Eq(i, BV(64, uint64(k))), s.B[k], r)
		}
	}
	return r
}

func (m *Machine) sliceOp(base Value, lo, hi, mx *T) Value {
	zero := BV(64, 0)
	if lo == nil {
		lo = zero
	}
	switch b := base.(type) {
	case Str:
		n := BV(64, uint64(len(b.B)))
		if hi == nil {
			hi = n
		}
		m.check(Cmp("bvule", hi, n), "slice bounds out of range")
		m.check(Cmp("bvule", lo, hi), "slice bounds out of range")
		if lo.IsC && hi.IsC {
			return Str{B: b.B[lo.C:hi.C]}
		}
		if constLeafIte(lo, 300) || constLeafIte(hi, 300) {
			// table-driven bounds (stringer index tables): case split on the few feasible bounds
			l, h := m.conc(lo, 512), m.conc(hi, 512)
			return Str{B: b.B[l:h]}
		}
		ln := int(m.conc(Bin("bvsub", hi, lo), 4096))
		r := Str{B: make([]*T, ln)}
		for k := 0; k < ln; k++ {
			r.B[k] = m.strIndex(b, Bin("bvadd", lo, BV(64, uint64(k))))
		}
		return r
	case Slice:
		if hi == nil {
			hi = b.Len
		}
		capv := b.Cap
		if mx != nil {
			m.check(Cmp("bvule", mx, b.Cap), "slice bounds out of range (max)")
			capv = mx
		}
		m.check(Cmp("bvule", hi, capv), "slice bounds out of range")
		m.check(Cmp("bvule", lo, hi), "slice bounds out of range")
		return Slice{BA: b.BA, AL: b.AL, Off: Bin("bvadd", b.Off, lo), Len: Bin("bvsub", hi, lo), Cap: Bin("bvsub", capv, lo)}
	case Ptr: // pointer to array
		if b.Nil {
			m.raiseRuntime("nil pointer dereference")
		}
		var n *T
		s := Slice{}
		if b.L.ba != nil {
			n = BV(64, uint64(b.L.ba.n))
			s.BA = b.L.ba
		} else {
			n = BV(64, uint64(len(b.L.sub)))
			s.AL = b.L
		}
		if hi == nil {
			hi = n
		}
		capv := n
		if mx != nil {
			m.check(Cmp("bvule", mx, n), "slice bounds out of range (max)")
			capv = mx
		}
		m.check(Cmp("bvule", hi, capv), "slice bounds out of range")
		m.check(Cmp("bvule", lo, hi), "slice bounds out of range")
		s.Off, s.Len, s.Cap = lo, Bin("bvsub", hi, lo), Bin("bvsub", capv, lo)
		return s
	}
	panic(unsupported{fmt.Sprintf("Slice on %T", base)})
}

func (m *Machine) lookup(x *ssa.Lookup, base, key Value) Value {
	switch b := base.(type) {
	case Str:
		return m.strIndex(b, m.to64(key.(*T), x.Index.Type()))
	case MapV:
		elem := x.X.Type().Underlying().(*types.Map).Elem()
		zero := zeroValue(elem)
		var found *T = BoolC(false)
		var val Value = zero
		if b.M != nil {
			concrete := true
			switch k := key.(type) {
			case *T:
				concrete = k.IsC
			case Str:
				for _, c := range k.B {
					if !c.IsC {
						concrete = false
					}
				}
			}
			hasSym := false
			for _, ks := range b.M.keys {
				if strings.HasPrefix(ks, "sym#") {
					hasSym = true
				}
			}
			if concrete && !hasSym {
				if v, ok := b.M.kv[keyString(key)]; ok {
					found, val = BoolC(true), v
				}
			} else {
				kt := x.X.Type().Underlying().(*types.Map).Key()
				mergeable := true
				switch zero.(type) {
				case *T, Struct, Array:
				default:
					mergeable = false
				}
				for j := 0; j < len(b.M.keys); j++ {
					// fork mode walks newest -> oldest (first match wins); merge mode oldest -> newest (newest outermost)
					i := j
					if !mergeable {
						i = len(b.M.keys) - 1 - j
					}
					ks := b.M.keys[i]
					rk := b.M.kraw[ks]
					if s, ok := key.(Str); ok && len(rk.(Str).B) != len(s.B) {
						continue
					}
					c := m.binop(token.EQL, kt, key, rk, kt).(*T)
					if !mergeable {
						// values that cannot be joined by ite (strings of different lengths, pointers): case split on the key
						if m.decide(c) {
							found, val = BoolC(true), b.M.kv[ks]
							break
						}
						continue
					}
					found = Or(c, found)
					val = iteValue(c, b.M.kv[ks], val)
				}
			}
		}
		if x.CommaOk {
			return Tuple{val, found}
		}
		return val
	}
	panic(unsupported{fmt.Sprintf("Lookup on %T", base)})
}

func (m *Machine) typeAssert(x *ssa.TypeAssert, v Iface) Value {
	ok := false
	var res Value = zeroValue(x.AssertedType)
	if v.T != nil {
		if it, isI := x.AssertedType.Underlying().(*types.Interface); isI {
			if v.T == m.errType {
				ok = it.NumMethods() == 1 && it.Method(0).Name() == "Error"
			} else {
				ok = types.Implements(v.T, it)
			}
			if ok {
				res = v
			}
		} else if types.Identical(v.T, x.AssertedType) {
			ok = true
			res = v.V
		}
	}
	if x.CommaOk {
		return Tuple{res, BoolC(ok)}
	}
	if !ok {
		m.raiseRuntime("interface conversion failed: " + x.AssertedType.String())
	}
	return res
}

func (m *Machine) builtin(fr *Frame, name string, args []Value, c *ssa.CallCommon) Value {
	switch name {
	case "len":
		switch a := args[0].(type) {
		case Str:
			return BV(64, uint64(len(a.B)))
		case Slice:
			return a.Len
		case MapV:
			if a.M == nil {
				return BV(64, 0)
			}
			return BV(64, uint64(len(a.M.keys)))
		case Array:
			return BV(64, uint64(len(a.E)))
		}
	case "cap":
		if a, ok := args[0].(Slice); ok {
			return a.Cap
		}
	case "copy":
		dst := args[0].(Slice)
		var n *T
		switch src := args[1].(type) {
		case Slice:
			n = Ite(Cmp("bvult", dst.Len, src.Len), dst.Len, src.Len)
			if dst.BA != nil {
				if src.BA == nil {
					return n // nil source
				}
				m.baCopy(dst.BA, dst.Off, n, src.BA, src.Off)
				return n
			}
			if dst.AL == nil {
				return n
			}
			cn := int(m.conc(n, 4096))
			so, do := int(m.conc(src.Off, 4096)), int(m.conc(dst.Off, 4096))
			vals := make([]Value, cn)
			for k := 0; k < cn; k++ {
				vals[k] = m.load(src.AL.sub[so+k])
			}
			for k := 0; k < cn; k++ {
				m.store(dst.AL.sub[do+k], vals[k])
			}
			return n
		case Str:
			sl := BV(64, uint64(len(src.B)))
			n = Ite(Cmp("bvult", dst.Len, sl), dst.Len, sl)
			cn := int(m.conc(n, 4096))
			for k := 0; k < cn; k++ {
				m.baStore(dst.BA, Bin("bvadd", dst.Off, BV(64, uint64(k))), src.B[k])
			}
			return n
		}
	case "append":
		s := args[0].(Slice)
		et := c.Args[0].Type().Underlying().(*types.Slice).Elem()
		return m.appendValue(s, args[1], isByte(et), et)
	case "recover":
		// only effective when called directly by a deferred function while panicking
		if m.pan != nil && fr.isDefer {
			v := m.pan.val
			m.setPanic(nil)
			if v == nil {
				return Iface{}
			}
			if iv, ok := v.(Iface); ok {
				return iv
			}
			return Iface{T: types.Typ[types.String], V: v}
		}
		return Iface{}
	case "ssa:wrapnilchk":
		return args[0]
	case "min", "max":
		t0 := c.Args[0].Type()
		_, signed, isInt := intWidth(t0)
		if !isInt {
			panic(unsupported{"min/max on non-int"})
		}
		r := args[0].(*T)
		for _, a := range args[1:] {
			y := a.(*T)
			var lt *T
			if signed {
				lt = Cmp("bvslt", y, r)
			} else {
				lt = Cmp("bvult", y, r)
			}
			if name == "max" {
				lt = Not(lt)
				lt = And(lt, Not(Eq(y, r)))
			}
			r = Ite(lt, y, r)
		}
		return r
	}
	panic(unsupported{"builtin " + name})
}

// appendValue implements append(s, src...) ; et is the element type (nil: bytes).
func (m *Machine) appendValue(s Slice, src Value, byteElems bool, ets ...types.Type) Value {
	var addLen *T
	switch a := src.(type) {
	case Slice:
		addLen = a.Len
	case Str:
		addLen = BV(64, uint64(len(a.B)))
	}
	newLen := Bin("bvadd", s.Len, addLen)
	fits := Cmp("bvule", newLen, s.Cap)
	if (s.BA != nil || s.AL != nil) && m.decide(fits) {
		r := Slice{BA: s.BA, AL: s.AL, Off: s.Off, Len: newLen, Cap: s.Cap}
		m.copyInto(r, s.Len, src)
		return r
	}
	// reallocate: Go grows to at most max(2*cap, newLen) (+ size-class rounding); ghost-count 2*newLen+64 elements
	if byteElems {
		if newLen.IsC {
			nl := int(newLen.C)
			ncap := nl*2 + 8
			r := Slice{Off: BV(64, 0), Len: newLen, Cap: BV(64, uint64(ncap))}
			m.ghostAlloc(BV(64, uint64(ncap)))
			r.BA = newZeroBA(ncap)
			if s.BA != nil {
				m.baCopy(r.BA, BV(64, 0), s.Len, s.BA, s.Off)
			}
			m.copyInto(r, s.Len, src)
			return r
		}
		ncap := Bin("bvadd", Bin("bvshl", newLen, BV(64, 1)), BV(64, 8))
		m.ghostAlloc(ncap)
		r := Slice{Off: BV(64, 0), Len: newLen, Cap: ncap, BA: newZeroBA(0)}
		if s.BA != nil {
			m.baCopy(r.BA, BV(64, 0), s.Len, s.BA, s.Off)
		}
		m.copyInto(r, s.Len, src)
		return r
	}
	et := ets[0]
	nl := int(m.conc(newLen, 4096))
	ncap := nl*2 + 8
	r := Slice{Off: BV(64, 0), Len: BV(64, uint64(nl)), Cap: BV(64, uint64(ncap))}
	m.ghostAlloc(BV(64, uint64(ncap)*uint64(sizeofType(et))))
	r.AL = newLoc(types.NewArray(et, int64(ncap)))
	if s.AL != nil {
		ol := int(m.conc(s.Len, 4096))
		oo := int(m.conc(s.Off, 4096))
		for k := 0; k < ol; k++ {
			m.store(r.AL.sub[k], m.load(s.AL.sub[oo+k]))
		}
	}
	m.copyInto(r, s.Len, src)
	return r
}

var stdSizes = types.SizesFor("gc", "amd64")

func sizeofType(t types.Type) int64 {
	defer func() { recover() }()
	return stdSizes.Sizeof(t)
}

func (m *Machine) copyInto(dst Slice, at *T, src Value) {
	switch a := src.(type) {
	case Slice:
		if dst.BA != nil {
			if a.BA != nil {
				m.baCopy(dst.BA, Bin("bvadd", dst.Off, at), a.Len, a.BA, a.Off)
			}
			return
		}
		n := int(m.conc(a.Len, 4096))
		do := int(m.conc(Bin("bvadd", dst.Off, at), 4096))
		so := int(m.conc(a.Off, 4096))
		if do+n > len(dst.AL.sub) || so+n > len(a.AL.sub) {
			panic(unsupported{"element beyond the materialised part of a large array"})
		}
		for k := 0; k < n; k++ {
			m.store(dst.AL.sub[do+k], m.load(a.AL.sub[so+k]))
		}
	case Str:
		for k, b := range a.B {
			m.baStore(dst.BA, Bin("bvadd", Bin("bvadd", dst.Off, at), BV(64, uint64(k))), b)
		}
	}
}

// constTable builds a compact lookup for an all-constant scalar table: default = most frequent value.
func constTable(i *T, es []Value) *T {
	cnt := map[*T]int{}
	for _, e := range es {
		t, ok := e.(*T)
		if !ok || !t.IsC {
			return nil
		}
		cnt[t]++
	}
	var def *T
	for t, c := range cnt {
		if def == nil || c > cnt[def] {
			def = t
		}
	}
	r := def
	for k := len(es) - 1; k >= 0; k-- {
		t := es[k].(*T)
		if t != def {
			r = Ite(Eq(i, BV(i.W, uint64(k))), t, r)
		}
	}
	return r
}
