package main

import (
	"bytes"
	"encoding/json"
	"fmt"
	"os"
	"os/exec"
	"path/filepath"
	"regexp"
	"strings"
	"time"
)

// Replayer builds, per repository package, one test binary (real code + harness files through -overlay) and runs
// a harness natively under a solver model.
type Replayer struct {
	tmp    string
	extra  map[string][]byte
	bins   map[string]string
	errs   map[string]string
	fnsOf  map[string][]string // pkg rel -> harness function names
	BuildS float64
}

type ReplayOutcome struct {
	Outcome string  `json:"outcome"` // ok | panic: ... | assert-failed: ... | assume-failed | hang | crash: ... | build-error: ...
	AllocB  int64   `json:"alloc_bytes"`
	WallS   float64 `json:"wall_s"`
	Stdout  int     `json:"stdout_bytes"`
}

func goEnv() []string {
	return append(os.Environ(), "GOFLAGS=-mod=mod", "GOPROXY=off", "GOSUMDB=off", "GOTOOLCHAIN=local")
}

var funcDecl = regexp.MustCompile(`(?m)^func (zzC\d+_\w+)\(\)\s*\{`)

func newReplayer(tmp string, extra map[string][]byte) *Replayer {
	return &Replayer{tmp: tmp, extra: extra, bins: map[string]string{}, errs: map[string]string{}, fnsOf: map[string][]string{}}
}

func (r *Replayer) build(rel string) (string, error) {
	if b, ok := r.bins[rel]; ok {
		return b, nil
	}
	if e, ok := r.errs[rel]; ok {
		return "", fmt.Errorf("%s", e)
	}
	t0 := time.Now()
	defer func() { r.BuildS += time.Since(t0).Seconds() }()
	ov, err := buildOverlay(r.extra)
	if err != nil {
		return "", err
	}
	dir := filepath.Join(r.tmp, "replay", strings.ReplaceAll(rel, "/", "_")+"_")
	os.MkdirAll(dir, 0o755)
	repl := map[string]string{}
	pkgName := ""
	var fns []string
	pdir := filepath.Join(repoDir, rel)
	n := 0
	for vp, content := range ov {
		n++
		if filepath.Dir(vp) != filepath.Clean(pdir) {
			// harness files of other packages (helpers the target package's harness calls) are overlaid as well
			real := filepath.Join(dir, fmt.Sprintf("o%d_%s", n, filepath.Base(vp)))
			if err := os.WriteFile(real, content, 0o644); err != nil {
				return "", err
			}
			repl[vp] = real
			continue
		}
		real := filepath.Join(dir, fmt.Sprintf("f%d_%s", n, filepath.Base(vp)))
		if err := os.WriteFile(real, content, 0o644); err != nil {
			return "", err
		}
		repl[vp] = real
		if mm := pkgClause.FindSubmatch(content); mm != nil {
			pkgName = string(mm[1])
		}
		for _, mm := range funcDecl.FindAllSubmatch(content, -1) {
			if !strings.HasSuffix(string(mm[1]), "_N") {
				fns = append(fns, string(mm[1]))
			}
		}
	}
	if pkgName == "" {
		return "", fmt.Errorf("no harness files for package %q", rel)
	}
	var tb bytes.Buffer
	fmt.Fprintf(&tb, "package %s\n\nimport (\n\t\"fmt\"\n\t\"os\"\n\t\"runtime\"\n\t\"testing\"\n)\n\n", pkgName)
	fmt.Fprintf(&tb, "func TestZZReplay(t *testing.T) {\n\tfns := map[string]func(){\n")
	for _, f := range fns {
		fmt.Fprintf(&tb, "\t\t%q: %s,\n", f, f)
	}
	fmt.Fprintf(&tb, "\t}\n\tf := fns[os.Getenv(\"ZZ_FN\")]\n\tif f == nil {\n\t\tfmt.Println(\"ZZ-OUTCOME: no-such-harness\")\n\t\treturn\n\t}\n")
	fmt.Fprintf(&tb, "\tvar m0, m1 runtime.MemStats\n\truntime.ReadMemStats(&m0)\n\tout := zzRun(f)\n\truntime.ReadMemStats(&m1)\n")
	fmt.Fprintf(&tb, "\tfmt.Printf(\"\\nZZ-ALLOC: %%d\\n\", m1.TotalAlloc-m0.TotalAlloc)\n\tfmt.Println(\"ZZ-OUTCOME: \" + out)\n}\n")
	tf := filepath.Join(dir, "zz_verif_replay_test.go")
	os.WriteFile(tf, tb.Bytes(), 0o644)
	repl[filepath.Join(pdir, "zz_verif_replay_test.go")] = tf
	oj, _ := json.Marshal(map[string]interface{}{"Replace": repl})
	of := filepath.Join(dir, "overlay.json")
	os.WriteFile(of, oj, 0o644)
	bin := filepath.Join(dir, "replay.test")
	target := "./" + rel
	if rel == "" {
		target = "."
	}
	cmd := exec.Command("go", "test", "-c", "-vet=off", "-overlay", of, "-o", bin, target)
	cmd.Dir = repoDir
	cmd.Env = goEnv()
	out, err := cmd.CombinedOutput()
	if err != nil {
		r.errs[rel] = fmt.Sprintf("go test -c failed: %v\n%s", err, out)
		return "", fmt.Errorf("%s", r.errs[rel])
	}
	r.bins[rel] = bin
	r.fnsOf[rel] = fns
	return bin, nil
}

// Run executes harness fn of package rel natively under the model.
func (r *Replayer) Run(rel, fn string, model map[string]uint64, tier, part int, timeout time.Duration) ReplayOutcome {
	bin, err := r.build(rel)
	if err != nil {
		return ReplayOutcome{Outcome: "build-error: " + err.Error()}
	}
	mf, _ := os.CreateTemp(r.tmp, "model*.json")
	json.NewEncoder(mf).Encode(map[string]interface{}{"model": model, "tier": tier, "part": part})
	mf.Close()
	defer os.Remove(mf.Name())
	t0 := time.Now()
	cmd := exec.Command("timeout", "-s", "KILL", fmt.Sprintf("%d", int(timeout.Seconds())), bin, "-test.run", "^TestZZReplay$", "-test.v", "-test.timeout", "0")
	cmd.Dir = filepath.Join(repoDir, rel)
	cmd.Env = append(os.Environ(), "ZZ_MODEL="+mf.Name(), "ZZ_FN="+fn, "GOMEMLIMIT=2GiB")
	out, err := cmd.CombinedOutput()
	ro := ReplayOutcome{WallS: time.Since(t0).Seconds()}
	s := string(out)
	if i := strings.Index(s, "ZZ-ALLOC: "); i >= 0 {
		fmt.Sscanf(s[i:], "ZZ-ALLOC: %d", &ro.AllocB)
	}
	if i := strings.Index(s, "ZZ-OUTCOME: "); i >= 0 {
		l := s[i+len("ZZ-OUTCOME: "):]
		if j := strings.Index(l, "\n"); j >= 0 {
			l = l[:j]
		}
		ro.Outcome = l
		// bytes written to stdout by the library itself (before our marker lines, after "=== RUN")
		pre := s[:strings.Index(s, "\nZZ-ALLOC: ")+1]
		if k := strings.Index(pre, "=== RUN   TestZZReplay\n"); k >= 0 {
			pre = pre[k+len("=== RUN   TestZZReplay\n"):]
		}
		ro.Stdout = len(strings.TrimSpace(pre))
		return ro
	}
	if ee, ok := err.(*exec.ExitError); ok && (ee.ExitCode() == 137 || ee.ExitCode() == -1 || ee.ExitCode() == 124) {
		ro.Outcome = "hang"
		return ro
	}
	tail := s
	if len(tail) > 600 {
		tail = tail[:600]
	}
	ro.Outcome = "crash: " + strings.ReplaceAll(tail, "\n", " | ")
	return ro
}
