package main

import (
	"flag"
	"fmt"
	"os"
	"path/filepath"
	"sort"
	"strings"
	"time"

	"golang.org/x/tools/go/packages"
	"golang.org/x/tools/go/ssa"
	"golang.org/x/tools/go/ssa/ssautil"
)

func main() {
	harnessDir := flag.String("harness", "/root/spike/harness", "harness root")
	pkgPath := flag.String("pkg", "", "import path suffix of the package holding the harness, e.g. tiff")
	fnName := flag.String("fn", "", "harness function")
	trace := flag.Bool("trace", false, "trace instructions")
	logf := flag.String("smtlog", "", "log solver input")
	noPure := flag.Bool("nopure", false, "disable pure-callee merging")
	flag.Parse()

	overlay := map[string][]byte{}
	filepath.Walk(*harnessDir, func(p string, info os.FileInfo, err error) error {
		if err == nil && !info.IsDir() && strings.HasSuffix(p, ".go") {
			rel, _ := filepath.Rel(*harnessDir, p)
			b, _ := os.ReadFile(p)
			overlay[filepath.Join("/repo", rel)] = b
		}
		return nil
	})
	t0 := time.Now()
	cfg := &packages.Config{Mode: packages.LoadAllSyntax, Dir: "/repo", Overlay: overlay}
	pkgs, err := packages.Load(cfg, "./...")
	if err != nil {
		panic(err)
	}
	if packages.PrintErrors(pkgs) > 0 {
		os.Exit(2)
	}
	prog, spkgs := ssautil.AllPackages(pkgs, ssa.InstantiateGenerics)
	prog.Build()
	fmt.Printf("loaded+built SSA in %.1fs\n", time.Since(t0).Seconds())

	var target *ssa.Package
	for _, p := range spkgs {
		if p != nil && (p.Pkg.Path() == "github.com/evanoberholster/imagemeta/"+*pkgPath || (*pkgPath == "." && p.Pkg.Path() == "github.com/evanoberholster/imagemeta")) {
			target = p
		}
	}
	if target == nil {
		panic("package not found")
	}
	fn := target.Func(*fnName)
	if fn == nil {
		panic("harness fn not found")
	}
	m := NewMachine(prog)
	m.trace = *trace
	m.noPure = *noPure
	if *logf != "" {
		f, _ := os.Create(*logf)
		m.sol.Log = f
	}
	// run package initialisers concretely
	t1 := time.Now()
	m.callFunction(target.Func("init"), nil, nil, false)
	m.Explore2Persist()
	{
		seen := map[*Loc]bool{}
		for _, l := range m.globals {
			freezeLoc(l, seen)
		}
	}
	fmt.Printf("init done in %.2fs, steps=%d findings=%d\n", time.Since(t1).Seconds(), m.Steps, len(m.findings))
	m.Steps = 0
	t2 := time.Now()
	m.callFunction(fn, nil, nil, false)
	m.Explore()
	el := time.Since(t2)
	fmt.Printf("harness %s: paths=%d forks=%d steps=%d queries=%d (sat %d unsat %d unknown %d) solver=%.2fs wall=%.2fs terms=%d purecalls=%d\n",
		*fnName, m.Paths, m.Forks, m.Steps, m.sol.Queries, m.sol.Sat, m.sol.Unsat, m.sol.Unknown, m.sol.Time.Seconds(), el.Seconds(), termSeq, m.PureCalls)
	var keys []string
	for k := range m.findings {
		keys = append(keys, k)
	}
	sort.Strings(keys)
	for _, k := range keys {
		f := m.findings[k]
		fmt.Printf("FINDING %s | %s | %s\n", f.Kind, f.Where, f.Msg)
		if len(f.Model) > 0 {
			fmt.Printf("   model: %s\n", fmtModel(f.Model))
		}
	}
	fmt.Println("reached:", reached)
}

func fmtModel(mo map[string]uint64) string {
	var ks []string
	for k := range mo {
		ks = append(ks, k)
	}
	sort.Strings(ks)
	var sb strings.Builder
	for _, k := range ks {
		fmt.Fprintf(&sb, "%s=%#x ", k, mo[k])
	}
	s := sb.String()
	if len(s) > 600 {
		s = s[:600] + "..."
	}
	return s
}

// Explore2Persist runs the current frame stack to completion on a single path and keeps the effects.
func (m *Machine) Explore2Persist() {
	for {
		ev := m.runUntilEvent()
		switch e := ev.(type) {
		case pathEnd:
			m.halted = false
			m.trail = nil
			m.pathStep = 0
			return
		default:
			panic(fmt.Sprintf("fork during init: %#v at %s", e, m.where()))
		}
	}
}
