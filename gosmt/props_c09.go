package main

import (
	"bytes"
	"encoding/hex"
	"encoding/json"
	"fmt"
	"os"
	"path/filepath"
)

// C09: the independent signature table /verif/spec/imagetype_signatures.json is compiled into a Go spec
// function (one if-chain); the hand-written harness (harness/imagetype/zz_verif_c09.go) compares it with
// imagetype.Buf and the three reader entry points over all 2^192 headers.

type sigRule struct {
	Type int             `json:"type"`
	Name string          `json:"name"`
	All  [][]interface{} `json:"all"`
	Alt  [][][]interface{} `json:"alt"`
	Alt2 [][][]interface{} `json:"alt2"`
}

func patCond(p []interface{}) (string, error) {
	off := int(p[0].(float64))
	bs, err := hex.DecodeString(p[1].(string))
	if err != nil {
		return "", err
	}
	var sb bytes.Buffer
	for i, b := range bs {
		if i > 0 {
			sb.WriteString(" && ")
		}
		fmt.Fprintf(&sb, "b[%d] == 0x%02x", off+i, b)
	}
	return sb.String(), nil
}

func groupCond(g [][]interface{}) (string, error) {
	var sb bytes.Buffer
	for i, p := range g {
		c, err := patCond(p)
		if err != nil {
			return "", err
		}
		if i > 0 {
			sb.WriteString(" && ")
		}
		sb.WriteString(c)
	}
	return sb.String(), nil
}

func altCond(a [][][]interface{}) (string, error) {
	var sb bytes.Buffer
	sb.WriteString("(")
	for i, g := range a {
		c, err := groupCond(g)
		if err != nil {
			return "", err
		}
		if i > 0 {
			sb.WriteString(" || ")
		}
		sb.WriteString("(" + c + ")")
	}
	sb.WriteString(")")
	return sb.String(), nil
}

func genC09(tier int) (map[string][]byte, error) {
	b, err := os.ReadFile(filepath.Join(verifDir, "spec/imagetype_signatures.json"))
	if err != nil {
		return nil, err
	}
	var spec struct {
		HeaderLen int       `json:"header_len"`
		Rules     []sigRule `json:"rules"`
	}
	if err := json.Unmarshal(b, &spec); err != nil {
		return nil, err
	}
	var sb bytes.Buffer
	sb.WriteString("package imagetype\n\n// generated from /verif/spec/imagetype_signatures.json on every run\n\n")
	sb.WriteString("// zzSpecType: first matching rule of the independent ordered signature table.\nfunc zzSpecType(b []byte) ImageType {\n")
	for _, r := range spec.Rules {
		var conds []string
		if len(r.All) > 0 {
			c, err := groupCond(r.All)
			if err != nil {
				return nil, err
			}
			conds = append(conds, c)
		}
		for _, a := range [][][][]interface{}{r.Alt, r.Alt2} {
			if len(a) > 0 {
				c, err := altCond(a)
				if err != nil {
					return nil, err
				}
				conds = append(conds, c)
			}
		}
		fmt.Fprintf(&sb, "\t// %s\n\tif ", r.Name)
		for i, c := range conds {
			if i > 0 {
				sb.WriteString(" && ")
			}
			sb.WriteString(c)
		}
		fmt.Fprintf(&sb, " {\n\t\treturn ImageType(%d)\n\t}\n", r.Type)
	}
	sb.WriteString("\treturn ImageUnknown\n}\n")
	return map[string][]byte{"imagetype/zz_verif_c09_gen.go": sb.Bytes()}, nil
}

func init() {
	register(&CheckDef{ID: "C09", Level: "proof", Gen: genC09, Timeout: [2]int{600, 900},
		Assumptions: []string{
			"input stream model zzMemReader: delivers data[:L] then io.EOF or an injected error (DESIGN.md section 5)",
			"bufio.Reader is interpreted from its real SSA (not modelled)",
			"the signature table /verif/spec/imagetype_signatures.json is the specification (written from the formats' published magic numbers and the repository's documented precedence)",
		},
		Bounds: map[string]interface{}{"header_bytes": "all 2^192 values of the first 24 bytes (no bound)", "suffix_len": "0..8 bytes case-split for Buf; streams up to 40 bytes for Scan/ScanBuf/ReadAt", "short_streams": "every length 0..23"},
	})
}

func init() {
	register(&CheckDef{ID: "C12", Level: "model_checking", Timeout: [2]int{700, 1500},
		Assumptions: []string{
			"input stream model zzMemReader (DESIGN.md section 5); bufio.Reader interpreted from its real SSA",
			"signature predicate zzSpecSig written from TIFF 6.0 section 2 (II*\\0 / MM\\0*)",
		},
		Bounds: map[string]interface{}{"prefix_len": "0..9 bytes quick, 0..12 thorough, every byte value (superset of the five-letter alphabet)", "after_header": "3 arbitrary trailing bytes", "nosig_stream_len": "<= 34 quick / 37 thorough, every length and terminal error", "outside": "prefixes longer than the bound (the 1-or-2-byte advance loop is position independent but that is not proved here)"},
	})
}

func init() {
	register(&CheckDef{ID: "C01", Level: "model_checking", Timeout: [2]int{600, 3000}, MaxSteps: 3000000, Kinds: []string{"panic", "unwind"},
		Assumptions: []string{
			"input stream model zzMemReader: delivers data[:L] (every truncation point) then io.EOF or an injected error",
			"bufio.Reader, encoding/binary, io.LimitReader interpreted from their real SSA; sync.Pool.Get returns New(); zerolog at the default (panic) level; errors/fmt opaque",
		},
		Bounds: map[string]interface{}{"see": "per-harness bounds in harness_runs and DESIGN.md section 8 C01"},
	})
}

func init() {
	register(&CheckDef{ID: "C07", Level: "model_checking", Timeout: [2]int{600, 1200},
		Assumptions: []string{"input stream model zzMemReader; bufio interpreted; sync.Pool.Get returns New(); zerolog at the default level; time.Date uninterpreted (equal components give equal instants)"},
		Bounds: map[string]interface{}{"entry_lemma": "all 2^96 twelve-byte IFD entries x all directory types x all base offsets (no bound)", "paired_decodes": "one-entry IFD0 skeletons: SHORT/LONG/ASCII embedded, ASCII out of line (7 chars), DateTime, and every defined type x count <= 8 for byte-typed embedded values of 8 tag ids"},
	})
}

func init() {
	register(&CheckDef{ID: "C03", Level: "model_checking", Timeout: [2]int{700, 1500},
		Assumptions: []string{
			"time.Date / time.FixedZone are uninterpreted: equality of instants/zones reduces to equality of the integer components handed over",
			"float division/conversion are uninterpreted functions of bit patterns (fp=uf): 'float32(n)/float32(d)' means the same operations on the same operands",
			"input stream model zzMemReader; bufio interpreted; sync.Pool.Get returns New()",
		},
		Bounds: map[string]interface{}{"skeletons": "IFD0 scalars; IFD0 strings (1..5 chars); three timestamps + 3-digit sub-seconds + zone; ExifIFD numbers (10 fields + LensSpecification); ExifIFD strings (2,4,7 chars); GPS (8 tags); each under II and MM", "values": "every in-range value (full-width solver variables); text = printable non-blank ASCII", "outside": "Make/Model alias normalisation, ApertureValue (math.Pow), more than 11 entries per directory, padding/permuted value blocks"},
	})
}

func init() {
	register(&CheckDef{ID: "C10", Level: "model_checking", Timeout: [2]int{600, 1200}, MaxSteps: 30000000,
		Assumptions: []string{"input stream model zzMemReader; bufio.Reader and io.LimitedReader interpreted from their real SSA; the Exif callback consumes its declared length (premise of the property)"},
		Bounds: map[string]interface{}{"sequences": "SOI, X, Exif-APP1 (16 payload bytes), Y, XMP-APP1 (12 packet bytes), DQT, 70 data bytes, and the order with XMP first; X = Y from {none, APP0, APP2, COM, DRI, foreign APP1, APPn holding SOI/EOI bytes}; payload bytes arbitrary incl. 0xFF; XMP callback consumption 0..15 bytes", "nonmeta": "one APPn/COM/SOF segment with 40 arbitrary payload bytes"},
	})
}

func init() {
	register(&CheckDef{ID: "C08", Level: "model_checking", Timeout: [2]int{600, 1200},
		Assumptions: []string{
			"chunked stream model: every Read delivers an arbitrary count 1 <= n <= min(len(p), left) for the first three reads (case split; later reads deliver all that is asked), optionally the last bytes together with io.EOF",
			"the buffered entry points are run end to end with bufio interpreted from its SSA over the chunked source (zzC08_containers); bufio itself is not separately verified",
		},
		Bounds: map[string]interface{}{"png": "signature + 16 arbitrary bytes (2 chunk headers)", "exif2.Parse": "3-entry IFD0 skeleton (2 SHORT, 1 ASCII[7] out of line), both byte orders",
			"Decode": "one 3-entry Exif payload (values arbitrary, both byte orders) in a TIFF file, a JPEG APP1 segment, a PNG eXIf chunk and a CR3 CMT1 box: full reads vs chunked source"},
	})
}

func init() {
	register(&CheckDef{ID: "C11", Level: "model_checking", Timeout: [2]int{600, 1200},
		Assumptions: []string{"input stream model zzMemReader; bufio interpreted; logger at the default level", "one-step lemmas start from an arbitrary chain state (remain values arbitrary non-negative, not assumed consistent)"},
		Bounds: map[string]interface{}{"lemmas": "chains of depth 2 and 3, every int argument (negative included), 8 operations", "framing": "5 top-level types, well-formed and size-overstating children", "payload": "CMT1..4 with 24 arbitrary payload bytes"},
	})
}

func init() {
	register(&CheckDef{ID: "C13", Level: "model_checking", Timeout: [2]int{700, 1500}, SolverMs: 120000,
		Assumptions: []string{"input stream model zzMemReader; bufio interpreted (ReadSlice's bytes.IndexByte is a first-match intrinsic)", "values range over printable ASCII without < > & = and without the delimiting quote character (the other quote is allowed)"},
		Bounds: map[string]interface{}{"packets": "one rdf:Description with 8 properties (tiff:Make/Model/ImageWidth/Orientation, xmp:CreatorTool/Label/Rating, one foreign), attribute form with both quote characters and 3 junk bytes before the root, element form, dc:creator rdf:Seq with 3 items", "value_lengths": "1, 4, 9 bytes (attribute form), 1, 4, 6 (element form), 3/1/1 digits (numbers); long values: 43 lengths between 60 and 1024 around every look-ahead step (120..130, 250..258, 508..514, 762..770, 1019..1024) in 4 serialisations, first and last two bytes arbitrary, the filler concrete",
			"white_space": "every slot between tokens (before/after attributes, around '=', before '>' and '/>', between tags) holds 0..2 arbitrary characters of {blank, tab, CR, LF}; concrete runs of 28 lengths between 100 and 512 (around the 128-byte steps) between attributes, between elements and between the structural tags",
			"outside": "other namespaces, dates/floats/UUIDs, entity references, values longer than 1024 bytes, white space inside end tags"},
	})
}

func init() {
	register(&CheckDef{ID: "C02", Level: "model_checking", Timeout: [2]int{600, 3000}, MaxSteps: 3000000, Also: []string{"C01"},
		FnPattern: `^zzC0[12]_(jpeg_hole|jpeg_seq|jpeg_filler|jpeg_trunc|tiff_free|png_free|png_sig|bmff_infe|bmff_infe2|bmff_iloc|bmff_top|bmff_sizes|bmff_pay|bmff_mdat|bmff_ctbo|exif_next|exif_subifds|exif_ifdoff|exif_fulldir|xmp_free|xmp_space)$`,
		Kinds:     []string{"unwind", "assert"}, AssertOnly: "bytes requested",
		Assumptions: []string{
			"termination is decided as an unwinding assertion: a path that exceeds the step budget (3000000 SSA instructions for streams of at most ~150 bytes) yields a model that is replayed natively under a 20 s watchdog; only a native hang is a violation",
			"bytes requested from the underlying reader are counted by the stream model (bufio's fills are real calls on it): requested <= 4*len+64KiB is asserted at every return",
			"CPU time per byte is represented by the step budget, not by wall-clock",
		},
		Bounds: map[string]interface{}{"harnesses": "the C01 entry-point harnesses for jpeg (hole, sequences, filler, truncation), tiff, png, isobmff (infe entries, size classes of every box of the tree, leaf payloads, the iinf+iloc+mdat route, CTBO) and exif2 (next-IFD pointer, SubIFDs, first-IFD offset, full directories), and xmp.ParseXmp on a root element followed by 24 arbitrary bytes"},
	})
}

func init() {
	register(&CheckDef{ID: "C14", Level: "model_checking", Timeout: [2]int{600, 1500}, Kinds: []string{"alloc", "assert"}, AssertOnly: "bytes allocated", Also: []string{"C01"},
		FnPattern: `^zzC14_|^zzC01_(bmff_sizes|bmff_infe2|bmff_ftyp|bmff_mdat|bmff_pay|exif_fulldir)$`,
		Assumptions: []string{
			"ghost allocation counter: every heap Alloc, make (capacity), append growth (2*len+8 elements), []byte<->string conversion and pool New adds its size; stubbed fmt/errors calls add 256 bytes each; zerolog at the default level allocates nothing",
			"a make() whose byte size can exceed 8 MiB under the path condition is reported as an input-controlled allocation; its replay measures runtime.MemStats.TotalAlloc",
		},
		Bounds: map[string]interface{}{"harnesses": "CR3 preview route with an arbitrary 24-byte PRVW header; IFD0 entries (4 id classes) with counts up to 2^32-1; HEIF iloc (three boxes) with arbitrary version/count/entries; the make() obligation also on the C01 isobmff harnesses whose box sizes take every size class (ftyp, every box of the tree, infe entries, leaf payloads, mdat route) and on the full-directory Exif harness"},
	})
	register(&CheckDef{ID: "C15", Level: "model_checking", Timeout: [2]int{600, 1500}, Kinds: []string{"panic", "stdout", "assert"},
		Assumptions: []string{
			"zerolog model (DESIGN.md section 5): a logger is its level; an event is enabled iff event level >= logger level and the logger is not disabled; on an enabled event Object/Array/Stringer/Err call back into the real MarshalZerologObject/Array, String and Error methods of the argument; Send/Msg write to the configured writer",
			"fmt.Print* is a write to fd 1; under the default configuration any such write is a finding",
		},
		Bounds: map[string]interface{}{"levels": "trace(-1) .. disabled(7), case split", "inputs": "IFD0 one-entry skeletons (3 id classes); CR3 moov/uuid with CNCV and a CTBO of arbitrary count and five arbitrary items; for silence: arbitrary streams up to 26 bytes, ftyp + 24 arbitrary bytes"},
	})
}

func init() {
	register(&CheckDef{ID: "C19", Level: "model_checking", Timeout: [2]int{700, 1500}, MaxSteps: 30000000, SolverMs: 120000, LooseSamples: true,
		Assumptions: []string{
			"floats are bit patterns with uninterpreted arithmetic (fp=uf): value obligations are 'the same operations on the same pixel'",
			"sync.Pool.Get returns New(); image and image/color accessors interpreted from their real SSA",
			"float comparisons are exact on the bit patterns (monotone key, the two zeros equal, NaN inputs excluded); float arithmetic stays uninterpreted",
			"2-D wiring: DCT2DHash64/256 (float64 and the portable float32 branch) against the real 1-D kernel applied to rows and then to the low-frequency columns of the same 4096 / 65536 symbolic inputs: identity of hash-consed terms (no solver query); a failure is replayed on a fixed patterned image",
			"threshold: MedianOfPixels on 2..5 arbitrary values: odd count = value of rank n/2; even count = a/2 + b/2 with b the upper median and a another value <= b (the code's 'at or just below the median'); the 64- and 256-element variants share quickSelectMedian but are not run at their own size",
			"not decided here: the bit assembly inside NewPHash*/NewAHash on whole images and the agreement of primary and alternative pipelines within rounding (see DESIGN.md C19)",
		},
		Bounds: map[string]interface{}{"guard": "4 constructors x sizes from {0,1,n-1,n,n+1,n/2,2n}^2 minus (n,n) x origin x in {-3,0,5}; nil image", "gray": "RGBA and Gray images of side 2 and 3, origins {0,1,-2}x{0,3}, arbitrary pixel bytes", "distance": "all 64/256-bit hash pairs",
			"wiring": "64x64 -> 8x8 and 256x256 -> 16x16, float64 and float32", "median": "n = 2, 3, 4, 5 (n = 6 does not finish)"},
	})
}

func init() {
	register(&CheckDef{ID: "C06", Level: "model_checking", Timeout: [2]int{600, 1200},
		Assumptions: []string{"input stream model zzMemReader; bufio interpreted; sync.Pool.Get returns New(); logger at the default level"},
		Bounds: map[string]interface{}{"payload": "TIFF header + IFD0 {ImageWidth SHORT, Orientation SHORT, Software ASCII[6] out of line}, all values symbolic, II and MM", "containers": "bare TIFF; HEIF-branded file with 0..3 arbitrary bytes before the payload (Decode, DecodeHeif); JPEG (APP0, APP1, DQT, 70 data bytes) through DecodeJPEG and Decode; PNG (one foreign chunk, eXIf); CR3 (ftyp, moov/uuid/CMT1, free)", "outside": "HEIF item-location route, CMT2-4, other surroundings"},
	})
	register(&CheckDef{ID: "C04", Level: "model_checking", Timeout: [2]int{700, 1500}, MaxSteps: 30000000,
		Assumptions: []string{
			"history = pool contents: after zzPoolHavoc every scalar and every byte of an object returned by sync.Pool.Get is a fresh solver variable (a pooled bufio.Reader keeps valid indices, only its buffer bytes are arbitrary); Put is a no-op",
			"a violation found here cannot be replayed without a primer call that leaves the solved pool contents; it is reported only if the native run on pristine pools already differs, otherwise as inconclusive candidate",
		},
		Bounds: map[string]interface{}{"exif": "IFD0 (3 fields) + IFD1 skeleton under II/MM; one-entry ASCII tags with counts <= 12 reaching past the end of the stream", "hash": "NewPHash64 / NewPHash64Alt on one 64x64 image", "outside": "cacheTimeZone names, alias check of returned objects"},
	})
}

func init() {
	register(&CheckDef{ID: "C18", Level: "translation_validation", Timeout: [2]int{600, 2000}, MaxSteps: 200000000, LooseSamples: true,
		Assumptions: []string{
			"fp=uf: a float32 is its bit pattern; + - * / are uninterpreted functions of bit patterns (+ and * commutative): if two lanes are equal for every interpretation they are equal under IEEE-754; NaN payload propagation is outside the claim",
			"asmx (Engine B) models the 45 mnemonics used by asm_x86.s as documented in the Intel SDM / Go assembler operand order; a mis-modelled instruction would show up as an inequality that native replay does not confirm (reported as broken, never as a violation)",
			"agreement with the DCT-II (C18-3/4): the output terms of the portable kernels (float32 forwardDCT64/256, float64 forwardDCT64/256 and the generic DCT1D on 32 points) are read over the reals as linear forms with exact rational coefficients; for every real x, |out_k(x) - DCTII_k(x)| <= eps*||x||_1 is one linear-real-arithmetic query per output (second z3 process, l1 unit ball by homogeneity, coefficient differences rounded to 2^-96 with the rounding taken off eps, float64 math.Cos trusted to 4e-16); the rounding error of the float evaluation is a running first-order-plus-(1+u) error bound per input lane (no underflow/overflow), required to stay within the stated budget",
			"the property's own figure 1e-5*||x||_1 is checked concretely on all 64 + 256 unit impulses (the machine folds float32 operations on constants with Go's float32 arithmetic); it is NOT established for all vectors: the sound float32 rounding bounds are 2.9e-5 (n=64) and 1.6e-4 (n=256)",
		},
		Bounds: map[string]interface{}{"kernels": "asmForwardDCT64 vs forwardDCT64 (64 symbolic inputs), asmForwardDCT256 vs forwardDCT256 (256), asmDCT2DHash64 vs DCT2DHash64 Go branch (4096)", "memory": "every load/store of the three routines checked against the argument slice, the declared stack frame and the RODATA tables",
			"dct2": "float32: n=64 eps 1e-6 + rounding budget 3.5e-5, n=256 eps 2.5e-6 + 2e-4; float64: n=64 1e-13 + 1e-13, n=256 1e-12 + 1e-12, generic n=32 1e-13 + 1e-13; unit impulses: all 320, tolerance 1e-5 (asm and Go for n=64, Go for n=256)",
			"outside": "the two-dimensional kernels against the 2-D DCT-II, float64 DCT2D/DCT2DHash*, subnormal/overflowing inputs, NaN payloads"},
	})
}

func init() {
	register(&CheckDef{ID: "C20", Level: "translation_validation", Timeout: [2]int{600, 2000}, MaxSteps: 400000000,
		Assumptions: []string{
			"asmx executes asmYCbCrToGray from asm_x86.s with the arguments AsmYCbCrToGray passes (real image.YCbCr values built by image.NewYCbCr / SubImage, interpreted from their SSA); integer lanes are exact bit-vectors, VCVTDQ2PS / VMULPS / VADDPS are evaluated in float32 on concrete lanes",
			"addresses do not depend on plane contents: the in-bounds obligations hold for every content of each enumerated layout; the value obligation (within 2.0 of the portable formula) is evaluated on one patterned content per layout, not for all contents",
			"32-byte alignment of the aligned store is recorded as a note (Go does not guarantee it for a []float32), not decided",
		},
		Bounds: map[string]interface{}{"layouts": "64x64 images for each of the six subsample ratios, at the origin and as the sub-image (8,8)-(72,72) of an 80x80 image (YStride 80 > width)", "outside": "256x256 images, other origins/strides"},
	})
}
