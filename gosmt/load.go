package main

import (
	"fmt"
	"os"
	"path/filepath"
	"regexp"
	"strings"

	"golang.org/x/tools/go/packages"
	"golang.org/x/tools/go/ssa"
	"golang.org/x/tools/go/ssa/ssautil"
)

const repoDir = "/repo"
const repoMod = "github.com/evanoberholster/imagemeta"

var verifDir = "/verif"

var overlayProp string // lower-case property id selecting the harness files, "" = all

var overlayFiles = map[string][]byte{} // virtual path under /repo -> content

var pkgClause = regexp.MustCompile(`(?m)^package\s+(\w+)`)

// buildOverlay maps every harness file /verif/harness/<rel>/zz_verif_*.go to /repo/<rel>/..., adds the support
// library (package clause rewritten) to each such directory, and adds generated harness files.
func buildOverlay(extra map[string][]byte) (map[string][]byte, error) {
	ov := map[string][]byte{}
	lib, err := os.ReadFile(filepath.Join(verifDir, "harness/_lib/zz_verif_lib.go"))
	if err != nil {
		return nil, err
	}
	dirs := map[string]string{} // rel dir -> package name
	root := filepath.Join(verifDir, "harness")
	err = filepath.Walk(root, func(p string, info os.FileInfo, err error) error {
		if err != nil || info.IsDir() || !strings.HasSuffix(p, ".go") {
			return err
		}
		rel, _ := filepath.Rel(root, p)
		if strings.HasPrefix(rel, "_") {
			return nil
		}
		// only the harness files of the property being checked (zz_verif_<id>*.go) and shared ones (zz_verif_common*.go)
		base := strings.ToLower(filepath.Base(rel))
		if overlayProp != "" && !strings.HasPrefix(base, "zz_verif_common") {
			keep := false
			for _, pr := range strings.Split(overlayProp, ",") {
				if strings.HasPrefix(base, "zz_verif_"+pr) {
					keep = true
				}
			}
			if !keep {
				return nil
			}
		}
		b, err := os.ReadFile(p)
		if err != nil {
			return err
		}
		ov[filepath.Join(repoDir, rel)] = b
		if mm := pkgClause.FindSubmatch(b); mm != nil {
			dirs[filepath.Dir(rel)] = string(mm[1])
		}
		return nil
	})
	if err != nil {
		return nil, err
	}
	for p, b := range extra {
		ov[filepath.Join(repoDir, p)] = b
		if mm := pkgClause.FindSubmatch(b); mm != nil {
			dirs[filepath.Dir(p)] = string(mm[1])
		}
	}
	// shared helper files: _lib/zz_verif_common_*.go with a first line "// inject: dir dir ..." ("." = module root)
	commons, _ := filepath.Glob(filepath.Join(root, "_lib", "zz_verif_common_*.go"))
	for _, cf := range commons {
		cb, err := os.ReadFile(cf)
		if err != nil {
			return nil, err
		}
		first := strings.SplitN(string(cb), "\n", 2)[0]
		if !strings.HasPrefix(first, "// inject:") {
			continue
		}
		for _, d := range strings.Fields(strings.TrimPrefix(first, "// inject:")) {
			if pkg, ok := dirs[d]; ok {
				ov[filepath.Join(repoDir, d, filepath.Base(cf))] = []byte(strings.Replace(string(cb), "package PKGNAME", "package "+pkg, 1))
			}
		}
	}
	for d, pkg := range dirs {
		ov[filepath.Join(repoDir, d, "zz_verif_lib.go")] = []byte(strings.Replace(string(lib), "package PKGNAME", "package "+pkg, 1))
	}
	for p := range pruneFns { // declarations that do not type-check against the current tree (prune.go)
		if b, ok := ov[p]; ok {
			ov[p] = applyPrune(p, b)
		}
	}
	return ov, nil
}

type Program struct {
	prog  *ssa.Program
	pkgs  map[string]*ssa.Package // import path -> package
	loadS float64
}

func loadProgram(overlay map[string][]byte) (*Program, error) {
	overlayFiles = overlay
	cfg := &packages.Config{Mode: packages.LoadAllSyntax, Dir: repoDir, Overlay: overlay,
		Env: append(os.Environ(), "GOFLAGS=-mod=mod", "GOPROXY=off", "GOSUMDB=off", "GOTOOLCHAIN=local")}
	pkgs, err := packages.Load(cfg, "./...")
	if err != nil {
		return nil, err
	}
	nerr := 0
	packages.Visit(pkgs, nil, func(p *packages.Package) {
		for _, e := range p.Errors {
			fmt.Fprintln(os.Stderr, "load error:", e)
			nerr++
		}
	})
	if nerr > 0 {
		return nil, fmt.Errorf("%d package load errors (the repository or a harness does not compile)", nerr)
	}
	prog, spkgs := ssautil.AllPackages(pkgs, ssa.InstantiateGenerics)
	prog.Build()
	P := &Program{prog: prog, pkgs: map[string]*ssa.Package{}}
	for _, p := range spkgs {
		if p != nil {
			P.pkgs[p.Pkg.Path()] = p
		}
	}
	for _, p := range prog.AllPackages() {
		if _, ok := P.pkgs[p.Pkg.Path()]; !ok {
			P.pkgs[p.Pkg.Path()] = p
		}
	}
	return P, nil
}

var srcCache = map[string][]string{}

// srcLine returns the trimmed source text of file:line (overlay files first).
func srcLine(file string, line int) string {
	ls, ok := srcCache[file]
	if !ok {
		var b []byte
		if ob, ok := overlayFiles[file]; ok {
			b = ob
		} else {
			b, _ = os.ReadFile(file)
		}
		ls = strings.Split(string(b), "\n")
		srcCache[file] = ls
	}
	if line >= 1 && line <= len(ls) {
		return strings.TrimSpace(ls[line-1])
	}
	return fmt.Sprintf("%s:%d", shortFile(file), line)
}
