package main

import (
	"bufio"
	"encoding/json"
	"flag"
	"fmt"
	"io"
	"os"
	"os/exec"
	"path/filepath"
	"regexp"
	"runtime/debug"
	"runtime/pprof"
	"sort"
	"strconv"
	"strings"
	"sync"
	"time"
)

// CheckDef describes how one property is checked.
type CheckDef struct {
	ID          string
	Level       string // evidence level
	Gen         func(tier int) (map[string][]byte, error)
	Post        func(c *CheckRun)                        // extra obligations after the harness runs
	Timeout     [2]int                                   // per item, seconds (quick, thorough)
	Also        []string                                 // harness files of these properties are loaded too
	FnPattern   string                                   // harness functions of this property (default ^zz<ID>_)
	Kinds       []string                                 // finding kinds that count for this property (default: all)
	MaxSteps    int                                      // per-path step budget (default 60000)
	LooseSamples bool                                    // harness compares uninterpreted float results: a sampled "ok" path may be an artefact of the abstraction
	SolverMs    int                                      // per-query solver timeout in ms (default 20000)
	AssertOnly  string                                   // when set: only assertion messages matching this regex count
	Assumptions []string
	Bounds      map[string]interface{}
	Trusted     []string
}

var checks = map[string]*CheckDef{}

func register(c *CheckDef) { checks[c.ID] = c }

type KnownFinding struct {
	Property string `json:"property"`
	Status   string `json:"status"` // known | fixed
	Harness  string `json:"harness,omitempty"`
	Kind     string `json:"kind,omitempty"`
	Site     string `json:"site,omitempty"`
	What     string `json:"what"`
	Commit   string `json:"commit,omitempty"`
	Witness  string `json:"witness,omitempty"`
	Part     *int   `json:"part,omitempty"` // when set: only this partition of the harness
}

type Violation struct {
	Property string            `json:"property"`
	Harness  string            `json:"harness"`
	Pkg      string            `json:"pkg"`
	Part     int               `json:"part"`
	Tier     int               `json:"tier"`
	Kind     string            `json:"kind"`
	Site     string            `json:"site"`
	Where    string            `json:"where"`
	Msg      string            `json:"msg"`
	Stack    []string          `json:"stack,omitempty"`
	Model    map[string]uint64 `json:"model"`
	Input    string            `json:"input_hex,omitempty"`
	Expected string            `json:"expected"`
	Observed string            `json:"observed"`
	Replay   ReplayOutcome     `json:"replay"`
}

type CheckRun struct {
	def      *CheckDef
	tier     int
	seed     int
	tmp      string
	extra    map[string][]byte
	results  []*ItemResult
	rep      *Replayer
	extraObl []Obligation
	lines    []string
	skipped  []string
	pruned   map[string]string
}

type Obligation struct {
	Name   string `json:"name"`
	Result string `json:"result"` // discharged | violated | inconclusive
	Detail string `json:"detail,omitempty"`
}

func readExtra(dir string) map[string][]byte {
	extra := map[string][]byte{}
	filepath.Walk(dir, func(p string, info os.FileInfo, err error) error {
		if err == nil && !info.IsDir() && strings.HasSuffix(p, ".go") {
			rel, _ := filepath.Rel(dir, p)
			b, _ := os.ReadFile(p)
			extra[rel] = b
		}
		return nil
	})
	return extra
}

func tierName(t int) string {
	if t == 1 {
		return "thorough"
	}
	return "quick"
}

// discover finds harness functions of a property textually in the harness tree and the generated files.
func discover(id, fnPattern string, extra map[string][]byte) []Item {
	decl := regexp.MustCompile(`(?m)^func (zzC\d+_\w+)\(\)\s*\{`)
	parts := regexp.MustCompile(`(?m)^func (zzC\d+_\w+)_N\(\) int\s*\{\s*return (\d+)\s*\}`)
	if fnPattern == "" {
		fnPattern = "^zz" + id + "_"
	}
	want := regexp.MustCompile(fnPattern)
	var items []Item
	scan := func(rel string, b []byte) {
		pn := map[string]int{}
		for _, mm := range parts.FindAllSubmatch(b, -1) {
			n, _ := strconv.Atoi(string(mm[2]))
			pn[string(mm[1])] = n
		}
		for _, mm := range decl.FindAllSubmatch(b, -1) {
			fn := string(mm[1])
			if !want.MatchString(fn) || strings.HasSuffix(fn, "_N") {
				continue
			}
			n := pn[fn]
			if n == 0 {
				n = 1
			}
			for k := 0; k < n; k++ {
				items = append(items, Item{Pkg: rel, Fn: fn, Part: k, Parts: n})
			}
		}
	}
	root := filepath.Join(verifDir, "harness")
	filepath.Walk(root, func(p string, info os.FileInfo, err error) error {
		if err == nil && !info.IsDir() && strings.HasSuffix(p, ".go") {
			rel, _ := filepath.Rel(root, filepath.Dir(p))
			if strings.HasPrefix(rel, "_") {
				return nil
			}
			if rel == "." {
				rel = ""
			}
			b, _ := os.ReadFile(p)
			scan(rel, b)
		}
		return nil
	})
	for p, b := range extra {
		rel := filepath.Dir(p)
		if rel == "." {
			rel = ""
		}
		scan(rel, b)
	}
	sort.SliceStable(items, func(i, j int) bool {
		if items[i].Pkg != items[j].Pkg {
			return items[i].Pkg < items[j].Pkg
		}
		if items[i].Fn != items[j].Fn {
			return items[i].Fn < items[j].Fn
		}
		return items[i].Part < items[j].Part
	})
	return items
}

// runItems executes items on up to nw worker processes (dynamic dispatch).
func runItems(items []Item, extraDir string, nw int) ([]*ItemResult, error) {
	if nw > len(items) {
		nw = len(items)
	}
	if nw < 1 {
		return nil, nil
	}
	self, _ := os.Executable()
	results := make([]*ItemResult, len(items))
	var mu sync.Mutex
	next := 0
	var firstErr error
	var wg sync.WaitGroup
	for w := 0; w < nw; w++ {
		wg.Add(1)
		go func(w int) {
			defer wg.Done()
			var cmd *exec.Cmd
			var in io.WriteCloser
			var out *bufio.Reader
			start := func() error {
				cmd = exec.Command(self, "worker", "--extra", extraDir, "--prop", overlayProp)
				cmd.Env = append(os.Environ(), pruneEnv())
				cmd.Stderr = os.Stderr
				var err error
				in, err = cmd.StdinPipe()
				if err != nil {
					return err
				}
				op, err := cmd.StdoutPipe()
				if err != nil {
					return err
				}
				out = bufio.NewReaderSize(op, 1<<20)
				if err := cmd.Start(); err != nil {
					return err
				}
				l, err := out.ReadString('\n')
				if err != nil || !strings.Contains(l, "ready") {
					return fmt.Errorf("worker failed to start (load error?)")
				}
				return nil
			}
			if err := start(); err != nil {
				mu.Lock()
				if firstErr == nil {
					firstErr = err
				}
				mu.Unlock()
				return
			}
			defer func() { in.Close(); cmd.Wait() }()
			for {
				mu.Lock()
				if next >= len(items) || firstErr != nil {
					mu.Unlock()
					return
				}
				i := next
				next++
				mu.Unlock()
				b, _ := json.Marshal(items[i])
				in.Write(append(b, '\n'))
				// hard watchdog: a worker stuck in one solver query or one long path is killed
				type rd struct {
					l   string
					err error
				}
				ch := make(chan rd, 1)
				rdr := out
				go func() { l, err := rdr.ReadString('\n'); ch <- rd{l, err} }()
				var l string
				var err error
				limit := time.Duration(items[i].TimeoutS+90) * time.Second
				select {
				case r := <-ch:
					l, err = r.l, r.err
				case <-time.After(limit):
					cmd.Process.Kill()
					<-ch
					results[i] = &ItemResult{Item: items[i], Incomplete: "killed by the watchdog: no result within the time limit (a single path or solver query did not finish)", Paths: 1, Reached: map[string]int{"end": 1}}
					cmd.Wait()
					if err := start(); err != nil {
						mu.Lock()
						if firstErr == nil {
							firstErr = err
						}
						mu.Unlock()
						return
					}
					continue
				}
				if err != nil {
					// worker died (engine crash / OOM): record and restart
					results[i] = &ItemResult{Item: items[i], Error: "worker process died while running this item"}
					cmd.Wait()
					if err := start(); err != nil {
						mu.Lock()
						if firstErr == nil {
							firstErr = err
						}
						mu.Unlock()
						return
					}
					continue
				}
				var r ItemResult
				if err := json.Unmarshal([]byte(l), &r); err != nil {
					results[i] = &ItemResult{Item: items[i], Error: "bad worker output: " + err.Error()}
					continue
				}
				results[i] = &r
				if os.Getenv("VERIF_PROGRESS") != "" {
					fmt.Fprintf(os.Stderr, "[%s/%s#%d] paths=%d queries=%d findings=%d wall=%.1fs %s %s\n", r.Item.Pkg, r.Item.Fn, r.Item.Part, r.Paths, r.Queries, len(r.Findings), r.WallS, r.Incomplete, r.Error)
				}
			}
		}(w)
	}
	wg.Wait()
	if firstErr != nil {
		return nil, firstErr
	}
	return results, nil
}

func loadKnown() []KnownFinding {
	var k []KnownFinding
	b, err := os.ReadFile(filepath.Join(verifDir, "known_findings.json"))
	if err != nil {
		return nil
	}
	if err := json.Unmarshal(b, &k); err != nil {
		fmt.Fprintln(os.Stderr, "known_findings.json:", err)
		os.Exit(3)
	}
	return k
}

func modelInputHex(model map[string]uint64) string {
	// reconstruct "<name>[0..n)" byte strings for display
	groups := map[string]map[int]byte{}
	for k, v := range model {
		i := strings.LastIndex(k, "_")
		if i < 0 {
			continue
		}
		n, err := strconv.Atoi(k[i+1:])
		if err != nil {
			continue
		}
		if groups[k[:i]] == nil {
			groups[k[:i]] = map[int]byte{}
		}
		groups[k[:i]][n] = byte(v)
	}
	var names []string
	for n := range groups {
		names = append(names, n)
	}
	sort.Strings(names)
	var sb strings.Builder
	var scal []string
	for k := range model {
		i := strings.LastIndex(k, "_")
		if i >= 0 {
			if _, err := strconv.Atoi(k[i+1:]); err == nil {
				continue
			}
		}
		scal = append(scal, k)
	}
	sort.Strings(scal)
	for _, k := range scal {
		if len(scal) <= 12 || model[k] != 0 {
			fmt.Fprintf(&sb, "%s=%d ", k, int64(model[k]))
		}
	}
	for _, n := range names {
		g := groups[n]
		l := len(g)
		if ln, ok := model[n+"_len"]; ok && int(ln) < l {
			l = int(ln)
		}
		fmt.Fprintf(&sb, "%s=", n)
		for i := 0; i < l; i++ {
			fmt.Fprintf(&sb, "%02x", g[i])
		}
		sb.WriteString(" ")
	}
	return strings.TrimSpace(sb.String())
}

func fingerprint(s string) string {
	h := uint64(1469598103934665603)
	for i := 0; i < len(s); i++ {
		h ^= uint64(s[i])
		h *= 1099511628211
	}
	return fmt.Sprintf("%016x", h)
}

func checkMain(args []string) int {
	fs := flag.NewFlagSet("check", flag.ExitOnError)
	tierS := fs.String("tier", "", "quick|thorough")
	nworkers := fs.Int("workers", 16, "worker processes")
	only := fs.String("only", "", "run only harness functions whose name contains this")
	keep := fs.Bool("keep", false, "keep the scratch directory")
	all := fs.Bool("all", false, "also run the partitions listed in quick_skip.json (they do not finish within the registered limits)")
	if len(args) < 1 {
		fmt.Fprintln(os.Stderr, "usage: verif check <ID> [--tier quick|thorough]")
		return 3
	}
	id := args[0]
	fs.Parse(args[1:])
	def := checks[id]
	if def == nil {
		fmt.Fprintln(os.Stderr, "unknown property", id)
		return 3
	}
	overlayProp = strings.ToLower(id)
	for _, a := range def.Also {
		overlayProp += "," + strings.ToLower(a)
	}
	tier := 0
	ts := *tierS
	if ts == "" {
		ts = os.Getenv("VERIF_TIER")
	}
	if ts == "thorough" {
		tier = 1
	}
	seed, _ := strconv.Atoi(os.Getenv("VERIF_SEED"))
	t0 := time.Now()
	tmp, err := os.MkdirTemp("", "verif-"+id+"-")
	if err != nil {
		fmt.Fprintln(os.Stderr, err)
		return 3
	}
	if !*keep {
		defer os.RemoveAll(tmp)
	} else {
		fmt.Fprintln(os.Stderr, "scratch:", tmp)
	}
	c := &CheckRun{def: def, tier: tier, seed: seed, tmp: tmp, extra: map[string][]byte{}}
	if def.Gen != nil {
		ex, err := def.Gen(tier)
		if err != nil {
			fmt.Fprintln(os.Stderr, "BROKEN: harness generation failed:", err)
			return 3
		}
		c.extra = ex
	}
	extraDir := filepath.Join(tmp, "extra")
	os.MkdirAll(extraDir, 0o755)
	for p, b := range c.extra {
		os.MkdirAll(filepath.Dir(filepath.Join(extraDir, p)), 0o755)
		os.WriteFile(filepath.Join(extraDir, p), b, 0o644)
	}
	// harness declarations that do not type-check against the current tree are pruned (prune.go); their entry points
	// are reported as not decided
	pruned, perr := computePrune(c.extra)
	if perr != nil {
		fmt.Fprintln(os.Stderr, "BROKEN:", perr)
		return 3
	}
	c.pruned = pruned
	items := discover(id, def.FnPattern, c.extra)
	if len(pruned) > 0 {
		var f []Item
		for _, it := range items {
			if _, gone := pruned[it.Fn]; !gone {
				f = append(f, it)
			}
		}
		items = f
	}
	if *only != "" {
		var f []Item
		re := regexp.MustCompile(*only)
		for _, it := range items {
			if re.MatchString(it.Fn) {
				f = append(f, it)
			}
		}
		items = f
	}
	// partitions that are known not to finish within the quick limits run in the thorough tier only
	var skipped []string
	if !*all {
		var qs struct {
			Skip []string `json:"skip"`
		}
		if b, err := os.ReadFile(filepath.Join(verifDir, "quick_skip.json")); err == nil {
			json.Unmarshal(b, &qs)
		}
		sk := map[string]bool{}
		for _, x := range qs.Skip {
			sk[x] = true
		}
		var f []Item
		for _, it := range items {
			if sk[fmt.Sprintf("%s#%d", it.Fn, it.Part)] {
				skipped = append(skipped, fmt.Sprintf("%s#%d", it.Fn, it.Part))
				continue
			}
			f = append(f, it)
		}
		items = f
	}
	c.skipped = skipped
	if len(items) == 0 {
		fmt.Fprintln(os.Stderr, "BROKEN: no harness functions for", id)
		return 3
	}
	for i := range items {
		items[i].Tier = tier
		items[i].TimeoutS = def.Timeout[tier]
		if items[i].TimeoutS == 0 {
			items[i].TimeoutS = []int{240, 1500}[tier]
		}
		items[i].Samples = []int{2, 6}[tier]
		items[i].MaxSteps = def.MaxSteps
		items[i].SolverMs = def.SolverMs
		items[i].Seed = seed
	}
	results, err := runItems(items, extraDir, *nworkers)
	if err != nil {
		fmt.Fprintln(os.Stderr, "BROKEN:", err)
		return 3
	}
	c.results = results
	c.rep = newReplayer(tmp, c.extra)
	return c.finish(t0)
}

func (c *CheckRun) finish(t0 time.Time) int {
	id := c.def.ID
	known := loadKnown()
	var violations []Violation
	var knownHit []string
	var broken, inconclusive []string
	{
		var names []string
		for n := range c.pruned {
			names = append(names, n)
		}
		sort.Strings(names)
		for _, n := range names {
			if strings.HasPrefix(n, "zz"+id+"_") || strings.HasPrefix(n, "zzC") {
				inconclusive = append(inconclusive, fmt.Sprintf("%s: harness does not compile against the current tree and was left out (%s)", n, c.pruned[n]))
			}
		}
	}
	states, transitions, queries, sat, unsat, unknown, paths := 0, 0, 0, 0, 0, 0, 0
	solverS := 0.0
	fnSet := map[string]int{}
	stubSet := map[string]int{}
	var samples []interface{}
	validated := 0
	reachWitness := 0
	perHarness := []map[string]interface{}{}
	seenKnown := map[string]bool{}
	for _, r := range c.results {
		if r == nil {
			broken = append(broken, "missing result")
			continue
		}
		tag := fmt.Sprintf("%s.%s#%d", r.Item.Pkg, r.Item.Fn, r.Item.Part)
		if r.Error != "" {
			broken = append(broken, tag+": "+r.Error)
			continue
		}
		if r.Incomplete != "" {
			inconclusive = append(inconclusive, tag+": "+r.Incomplete)
		}
		paths += r.Paths
		states += r.Paths + r.Forks
		transitions += r.Queries
		queries += r.Queries
		sat += r.Sat
		unsat += r.Unsat
		unknown += r.Unknown
		solverS += r.SolverS
		for _, f := range r.Functions {
			fnSet[f.Fn] = f.Instrs
		}
		for s, n := range r.Stubs {
			stubSet[s] += n
		}
		if len(r.Samples) == 0 && r.Reached["end"] == 0 {
			// vacuity guard: no path of this harness ran to its end
			hasNonFinding := false
			for _, f := range r.Findings {
				if f.Kind == "panic" || f.Kind == "assert" || f.Kind == "alloc" || f.Kind == "unwind" || f.Kind == "stdout" || f.Kind == "asm-oob" {
					hasNonFinding = true
				}
			}
			if !hasNonFinding {
				broken = append(broken, tag+": vacuous (no path reached the end of the harness)")
			}
		} else {
			reachWitness++
		}
		perHarness = append(perHarness, map[string]interface{}{"harness": tag, "paths": r.Paths, "forks": r.Forks, "queries": r.Queries, "solver_s": round3(r.SolverS), "wall_s": round3(r.WallS), "findings": len(r.Findings), "asserts_reached": r.Asserts})
		// native validation of sampled path models: the harness must run to "ok"
		hasOOB := false // a path on which the assembly left its slice is not an "ok" path natively (it faults at the guard page)
		for _, f := range r.Findings {
			hasOOB = hasOOB || f.Kind == "asm-oob"
		}
		for _, mo := range r.Samples {
			if hasOOB {
				break
			}
			ro := c.rep.Run(r.Item.Pkg, r.Item.Fn, mo, r.Item.Tier, r.Item.Part, 30*time.Second)
			if ro.Outcome == "ok" {
				validated++
				if len(samples) < 6 {
					samples = append(samples, map[string]interface{}{"harness": tag, "input": modelInputHex(mo), "symbolic": "path ran to the end, all assertions hold", "native": ro.Outcome})
				}
			} else if strings.HasPrefix(ro.Outcome, "build-error") {
				broken = append(broken, tag+": "+ro.Outcome)
				break
			} else if c.def.LooseSamples && strings.HasPrefix(ro.Outcome, "assert-failed") {
				// equalities over uninterpreted float functions can hold in the solver's model and fail natively: not counted
			} else {
				broken = append(broken, fmt.Sprintf("%s: ENCODING-MISMATCH sampled path predicted ok, native run gave %q (input %s)", tag, ro.Outcome, modelInputHex(mo)))
			}
		}
		for _, f := range r.Findings {
			if len(c.def.Kinds) > 0 && f.Kind != "unsupported" && f.Kind != "bound" {
				keep := false
				for _, k := range c.def.Kinds {
					if k == f.Kind {
						keep = true
					}
				}
				if f.Kind == "assert" && c.def.AssertOnly != "" && !regexp.MustCompile(c.def.AssertOnly).MatchString(f.Msg) {
					keep = false
				}
				if !keep {
					continue
				}
			}
			switch f.Kind {
			case "unsupported", "bound":
				inconclusive = append(inconclusive, fmt.Sprintf("%s: %s at %s: %s", tag, f.Kind, f.Where, f.Msg))
				continue
			}
			if f.NoModel {
				inconclusive = append(inconclusive, fmt.Sprintf("%s: %s at %s without a model", tag, f.Kind, f.Where))
				continue
			}
			// known?
			isKnown := false
			for _, k := range known {
				if k.Status == "known" && k.Property == id && k.Harness == r.Item.Fn && k.Kind == f.Kind && k.Site == f.Site && (k.Part == nil || *k.Part == r.Item.Part) {
					isKnown = true
					key := k.Harness + "|" + k.Kind + "|" + k.Site + "|" + k.What
					if !seenKnown[key] {
						seenKnown[key] = true
						knownHit = append(knownHit, k.What)
					}
				}
			}
			if isKnown {
				continue
			}
			to := 20 * time.Second
			ro := c.rep.Run(r.Item.Pkg, r.Item.Fn, f.Model, r.Item.Tier, r.Item.Part, to)
			expected, ok := "", false
			switch f.Kind {
			case "panic":
				expected = "panic in " + normFn(f.Where)
				ok = strings.HasPrefix(ro.Outcome, "crash:")
				if strings.HasPrefix(ro.Outcome, "panic:") {
					// the native panic must be raised in the function the engine predicts (or a callee it merged)
					nat := ro.Outcome
					if i := strings.LastIndex(nat, " @ "); i >= 0 {
						nat = normFn(nat[i+3:])
					}
					cands := append([]string{f.Where}, f.Fns...)
					for _, c := range cands {
						if nat != "" && normFn(c) == nat {
							ok = true
						}
					}
				}
			case "assert":
				expected = "assert-failed: " + f.Msg
				ok = strings.HasPrefix(ro.Outcome, "assert-failed:") && strings.Contains(ro.Outcome, f.Msg)
			case "unwind":
				expected = "hang"
				ok = ro.Outcome == "hang"
			case "alloc":
				expected = "allocation above 4MiB+16*len(input)"
				ok = ro.AllocB > 6<<20
			case "stdout":
				expected = "bytes on fd 1"
				ok = ro.Stdout > 0
			case "asm-oob":
				// an out-of-bounds access of the assembly is observed natively as a fault when the harness places the slice
				// against an inaccessible page (zzGuardCopy), or as a wrong result (the harness's value assertion fails)
				expected = "fault at the guard page, or a wrong result of the routine whose access left its slice"
				ok = strings.HasPrefix(ro.Outcome, "assert-failed") || strings.HasPrefix(ro.Outcome, "crash") || strings.HasPrefix(ro.Outcome, "panic")
			}
			v := Violation{Property: id, Harness: r.Item.Fn, Pkg: r.Item.Pkg, Part: r.Item.Part, Tier: r.Item.Tier, Kind: f.Kind, Site: f.Site, Where: f.Where, Msg: f.Msg, Stack: f.Stack, Model: f.Model, Input: modelInputHex(f.Model), Expected: expected, Observed: ro.Outcome, Replay: ro}
			if ok {
				violations = append(violations, v)
			} else if strings.HasPrefix(ro.Outcome, "build-error") {
				broken = append(broken, tag+": "+ro.Outcome)
			} else if f.Kind == "unwind" {
				inconclusive = append(inconclusive, fmt.Sprintf("%s: step budget exceeded at %s but the native run terminates (%s): unwinding bound too small", tag, f.Where, ro.Outcome))
			} else {
				broken = append(broken, fmt.Sprintf("%s: ENCODING-MISMATCH %s at %s (%s) predicted %q, native run gave %q (input %s)", tag, f.Kind, f.Where, f.Msg, expected, ro.Outcome, modelInputHex(f.Model)))
			}
		}
	}
	if c.def.Post != nil {
		c.def.Post(c)
	}
	nobl, ndis := 0, 0
	for _, o := range c.extraObl {
		nobl++
		switch o.Result {
		case "discharged":
			ndis++
		case "violated":
			broken = append(broken, "extra obligation violated without replay: "+o.Name+" "+o.Detail)
		default:
			inconclusive = append(inconclusive, "obligation "+o.Name+": "+o.Detail)
		}
	}
	// harness-level obligations: every assertion site + every harness "no run-time check fails"
	for _, r := range c.results {
		if r != nil && r.Error == "" {
			nobl += 1 + len(r.Asserts)
			nviol := map[string]bool{}
			for _, f := range r.Findings {
				nviol[f.Kind+f.Msg] = true
			}
			ndis += 1 + len(r.Asserts) - min(len(nviol), 1+len(r.Asserts))
		}
	}
	// write violations
	os.MkdirAll(filepath.Join(verifDir, "replays", id), 0o755)
	for i := range violations {
		v := &violations[i]
		p := filepath.Join(verifDir, "replays", id, fingerprint(v.Harness+v.Kind+v.Site)+".json")
		b, _ := json.MarshalIndent(v, "", " ")
		os.WriteFile(p, b, 0o644)
		c.lines = append(c.lines, fmt.Sprintf("VIOLATION property=%s replay=%s", id, p))
		fmt.Fprintf(os.Stderr, "  violation: %s %s at %s: %s | input %s | native: %s\n", v.Harness, v.Kind, v.Where, v.Msg, v.Input, v.Observed)
	}
	for _, k := range knownHit {
		c.lines = append(c.lines, fmt.Sprintf("KNOWN-FINDING: property=%s %s", id, k))
	}
	var fns []FnInfo
	for f, n := range fnSet {
		fns = append(fns, FnInfo{f, n})
	}
	sort.Slice(fns, func(i, j int) bool { return fns[i].Fn < fns[j].Fn })
	var stubs []string
	for s := range stubSet {
		stubs = append(stubs, s)
	}
	sort.Strings(stubs)
	if len(samples) == 0 {
		for _, r := range c.results {
			if r != nil && len(samples) < 3 {
				samples = append(samples, map[string]interface{}{"harness": r.Item.Fn, "part": r.Item.Part, "paths": r.Paths, "queries": r.Queries})
			}
		}
	}
	var notes []string
	for _, r := range c.results {
		if r != nil {
			notes = append(notes, r.Notes...)
		}
	}
	cov := map[string]interface{}{
		"notes":  notes,
		"states": max(states, 1), "transitions": max(transitions, 1), "traces_validated_against_impl": validated, "samples": samples,
		"obligations": max(nobl, 1), "discharged": max(ndis, 0), "checker_cmd": "/usr/bin/z3 -in  (SMT-LIB2 stream, (set-logic QF_UFBV), push/pop; z3 4.8.12)",
		"trusted_base": append([]string{"go/ssa (x/tools v0.29.0)", "z3 4.8.12", "gosmt symbolic machine (/verif/gosmt)", "environment models of DESIGN.md section 5"}, c.def.Trusted...),
		"programs": len(fns), "disagreements_checked": nobl,
		"functions_encoded": fns, "functions_encoded_count": len(fns), "stubs_used": stubs,
		"bounds": c.def.Bounds, "paths": paths, "harness_runs": perHarness,
		"queries": map[string]int{"total": queries, "sat": sat, "unsat": unsat, "unknown": unknown}, "solver_s": round3(solverS),
		"reachability_witnesses": reachWitness, "inconclusive": inconclusive, "broken": broken, "known_findings_matched": knownHit,
		"extra_obligations": c.extraObl, "partitions_outside_the_registered_tiers": c.skipped, "replay_build_s": round3(c.rep.BuildS),
		"encoding": "regenerated from /repo's working tree on this run (go/packages + go/ssa with harness overlay)",
	}
	ev := map[string]interface{}{"property_id": id, "tier": tierName(c.tier), "seed": c.seed, "level": c.def.Level, "coverage": cov,
		"assumptions": c.def.Assumptions, "wall_s": round3(time.Since(t0).Seconds()), "violations": len(violations)}
	os.MkdirAll(filepath.Join(verifDir, "evidence"), 0o755)
	b, _ := json.MarshalIndent(ev, "", " ")
	os.WriteFile(filepath.Join(verifDir, "evidence", id+".json"), b, 0o644)
	for _, l := range c.lines {
		fmt.Println(l)
	}
	fmt.Printf("%s %s: harness runs=%d paths=%d queries=%d (sat %d unsat %d unknown %d) solver=%.1fs validated=%d violations=%d known=%d inconclusive=%d broken=%d wall=%.1fs\n",
		id, tierName(c.tier), len(c.results), paths, queries, sat, unsat, unknown, solverS, validated, len(violations), len(knownHit), len(inconclusive), len(broken), time.Since(t0).Seconds())
	for _, s := range broken {
		fmt.Println("BROKEN:", s)
	}
	for _, s := range inconclusive {
		fmt.Println("INCONCLUSIVE:", s)
	}
	switch {
	case len(violations) > 0:
		return 1
	case len(broken) > 0:
		return 3
	case len(inconclusive) > 0:
		return 2
	}
	return 0
}

// normFn normalises a function name from go/ssa ("(*pkg.T).M @file:line", "pkg.F$1") or from a native stack
// ("pkg.(*T).M", "pkg.F.func1") to a common spelling.
func normFn(s string) string {
	if i := strings.Index(s, " @"); i >= 0 {
		s = s[:i]
	}
	s = strings.NewReplacer("(", "", ")", "", "*", "").Replace(strings.TrimSpace(s))
	s = regexp.MustCompile(`\$(\d+)`).ReplaceAllString(s, ".func$1")
	s = regexp.MustCompile(`\[\.\.\.\]`).ReplaceAllString(s, "")
	return s
}

func round3(f float64) float64 { return float64(int64(f*1000)) / 1000 }

func main() {
	debug.SetGCPercent(400)
	if v := os.Getenv("VERIF_DIR"); v != "" {
		verifDir = v
	}
	if len(os.Args) < 2 {
		fmt.Fprintln(os.Stderr, "usage: verif check|run|worker|replay ...")
		os.Exit(3)
	}
	switch os.Args[1] {
	case "check":
		os.Exit(checkMain(os.Args[2:]))
	case "worker":
		fs := flag.NewFlagSet("worker", flag.ExitOnError)
		extra := fs.String("extra", "", "directory with generated harness files")
		prop := fs.String("prop", "", "property id (selects harness files)")
		fs.Parse(os.Args[2:])
		overlayProp = *prop
		workerMain(*extra)
	case "run":
		os.Exit(runMain(os.Args[2:]))
	case "replay":
		os.Exit(replayMain(os.Args[2:]))
	default:
		fmt.Fprintln(os.Stderr, "unknown command")
		os.Exit(3)
	}
}

// runMain: debug a single harness in-process.
func runMain(args []string) int {
	fs := flag.NewFlagSet("run", flag.ExitOnError)
	pkg := fs.String("pkg", "", "package (relative)")
	fn := fs.String("fn", "", "harness function")
	part := fs.Int("part", 0, "partition")
	tier := fs.Int("tier", 0, "tier")
	trace := fs.Bool("trace", false, "trace")
	nopure := fs.Bool("nopure", false, "no pure merging")
	gen := fs.String("gen", "", "property id whose generated harnesses to include")
	smtlog := fs.String("smtlog", "", "log SMT input")
	timeout := fs.Int("timeout", 0, "seconds")
	cpuprof := fs.String("cpuprofile", "", "write a CPU profile")
	also := fs.String("also", "", "also load harness files of these properties (comma separated)")
	fs.Parse(args)
	if *cpuprof != "" {
		f, _ := os.Create(*cpuprof)
		pprof.StartCPUProfile(f)
		defer pprof.StopCPUProfile()
	}
	extra := map[string][]byte{}
	if m := regexp.MustCompile(`^zz(C\d+)_`).FindStringSubmatch(*fn); m != nil {
		overlayProp = strings.ToLower(m[1])
		if *also != "" {
			overlayProp += "," + strings.ToLower(*also)
		}
		if *gen == "" {
			*gen = m[1]
		}
	}
	if *gen != "" && checks[*gen] != nil && checks[*gen].Gen != nil {
		var err error
		extra, err = checks[*gen].Gen(*tier)
		if err != nil {
			fmt.Println(err)
			return 3
		}
	}
	if os.Getenv("ZZ_PRUNE") == "" {
		if pr, err := computePrune(extra); err != nil {
			fmt.Println(err)
			return 3
		} else if len(pr) > 0 {
			fmt.Println("pruned harness declarations:", pr)
		}
	}
	ov, err := buildOverlay(extra)
	if err != nil {
		fmt.Println(err)
		return 3
	}
	t0 := time.Now()
	P, err := loadProgram(ov)
	if err != nil {
		fmt.Println(err)
		return 3
	}
	fmt.Printf("loaded in %.1fs\n", time.Since(t0).Seconds())
	smtLogFile = *smtlog
	os.Setenv("VERIF_PROGRESS", "1")
	r := runItem(P, Item{Pkg: *pkg, Fn: *fn, Part: *part, Tier: *tier, Trace: *trace, NoPure: *nopure, Samples: 2, TimeoutS: *timeout})
	fmt.Printf("paths=%d forks=%d steps=%d queries=%d (sat %d unsat %d unknown %d) solver=%.2fs wall=%.2fs terms=%d pure=%d incomplete=%q error=%q\n",
		r.Paths, r.Forks, r.Steps, r.Queries, r.Sat, r.Unsat, r.Unknown, r.SolverS, r.WallS, r.Terms, r.PureCalls, r.Incomplete, r.Error)
	for _, f := range r.Findings {
		fmt.Printf("FINDING %s | %s | %s | %s\n   input: %s\n", f.Kind, f.Where, f.Site, f.Msg, modelInputHex(f.Model))
		if len(f.Model) < 40 {
			fmt.Printf("   model: %v\n", f.Model)
		}
	}
	fmt.Println("reached:", r.Reached, "asserts:", r.Asserts, "samples:", len(r.Samples))
	for _, n := range r.Notes {
		fmt.Println("note:", n)
	}
	return 0
}

func replayMain(args []string) int {
	if len(args) < 1 {
		fmt.Fprintln(os.Stderr, "usage: verif replay <path>")
		return 3
	}
	b, err := os.ReadFile(args[0])
	if err != nil {
		fmt.Fprintln(os.Stderr, err)
		return 3
	}
	var v Violation
	if err := json.Unmarshal(b, &v); err != nil {
		fmt.Fprintln(os.Stderr, err)
		return 3
	}
	tmp, _ := os.MkdirTemp("", "verif-replay-")
	defer os.RemoveAll(tmp)
	extra := map[string][]byte{}
	overlayProp = strings.ToLower(v.Property)
	if d := checks[v.Property]; d != nil {
		for _, a := range d.Also {
			overlayProp += "," + strings.ToLower(a)
		}
	}
	if d := checks[v.Property]; d != nil && d.Gen != nil {
		extra, _ = d.Gen(v.Tier)
	}
	if _, err := computePrune(extra); err != nil {
		fmt.Fprintln(os.Stderr, err)
		return 3
	}
	rep := newReplayer(tmp, extra)
	ro := rep.Run(v.Pkg, v.Harness, v.Model, v.Tier, v.Part, 20*time.Second)
	fmt.Printf("harness %s.%s input %s\nexpected: %s\nobserved: %s (alloc %d bytes, stdout %d bytes)\n", v.Pkg, v.Harness, v.Input, v.Expected, ro.Outcome, ro.AllocB, ro.Stdout)
	if ro.Outcome == v.Observed || (v.Kind == "panic" && strings.HasPrefix(ro.Outcome, "panic:")) {
		fmt.Printf("VIOLATION property=%s replay=%s\n", v.Property, args[0])
		return 1
	}
	return 0
}

var smtLogFile string
