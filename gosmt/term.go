package main

import (
	"fmt"
	"math/bits"
	"sort"
	"strings"
)

// T is a hash-consed SMT term. W==0 means Bool, W>0 means (_ BitVec W).
type T struct {
	Op   string
	Args []*T
	W    int
	C    uint64 // constant value (IsC)
	IsC  bool
	Name string // var / uf name
	P1   int    // extract hi / ext amount
	P2   int    // extract lo
	id   int
}

type termKey struct {
	op         string
	w, p1, p2  int
	name       string
	c          uint64
	n          int
	a0, a1, a2 int
}

var (
	termTab  = map[string]*T{}
	termTabK = map[termKey]*T{}
	termSeq  int
)

func mask(w int) uint64 {
	if w >= 64 {
		return ^uint64(0)
	}
	return (uint64(1) << uint(w)) - 1
}

func intern(t *T) *T {
	if len(t.Args) <= 3 {
		k := termKey{op: t.Op, w: t.W, p1: t.P1, p2: t.P2, name: t.Name, c: t.C, n: len(t.Args)}
		if len(t.Args) > 0 {
			k.a0 = t.Args[0].id
		}
		if len(t.Args) > 1 {
			k.a1 = t.Args[1].id
		}
		if len(t.Args) > 2 {
			k.a2 = t.Args[2].id
		}
		if o, ok := termTabK[k]; ok {
			return o
		}
		termSeq++
		t.id = termSeq
		termTabK[k] = t
		return t
	}
	var sb strings.Builder
	sb.WriteString(t.Op)
	fmt.Fprintf(&sb, "/%d/%d/%d/%s/%d", t.W, t.P1, t.P2, t.Name, t.C)
	for _, a := range t.Args {
		fmt.Fprintf(&sb, ",%d", a.id)
	}
	k := sb.String()
	if o, ok := termTab[k]; ok {
		return o
	}
	termSeq++
	t.id = termSeq
	termTab[k] = t
	return t
}

var smallBV [65][256]*T

func BV(w int, c uint64) *T {
	c &= mask(w)
	if c < 256 && w <= 64 {
		if t := smallBV[w][c]; t != nil {
			return t
		}
		t := intern(&T{Op: "const", W: w, C: c, IsC: true})
		smallBV[w][c] = t
		return t
	}
	return intern(&T{Op: "const", W: w, C: c, IsC: true})
}
var boolT, boolF *T

func BoolC(b bool) *T {
	if boolT == nil {
		boolT = intern(&T{Op: "const", W: 0, C: 1, IsC: true})
		boolF = intern(&T{Op: "const", W: 0, C: 0, IsC: true})
	}
	if b {
		return boolT
	}
	return boolF
}
func Var(name string, w int) *T { return intern(&T{Op: "var", W: w, Name: name}) }
func App(name string, w int, args ...*T) *T {
	return intern(&T{Op: "app", W: w, Name: name, Args: args})
}

func (t *T) True() bool  { return t.IsC && t.W == 0 && t.C == 1 }
func (t *T) False() bool { return t.IsC && t.W == 0 && t.C == 0 }

func sx(w int, c uint64) int64 {
	if w >= 64 {
		return int64(c)
	}
	if c&(1<<uint(w-1)) != 0 {
		return int64(c | ^mask(w))
	}
	return int64(c)
}

func Not(a *T) *T {
	if a.IsC {
		return BoolC(a.C == 0)
	}
	if a.Op == "not" {
		return a.Args[0]
	}
	return intern(&T{Op: "not", Args: []*T{a}})
}
func And(a, b *T) *T {
	if a.False() || b.False() {
		return BoolC(false)
	}
	if a.True() {
		return b
	}
	if b.True() {
		return a
	}
	if a == b {
		return a
	}
	return intern(&T{Op: "and", Args: []*T{a, b}})
}
func Or(a, b *T) *T {
	if a.True() || b.True() {
		return BoolC(true)
	}
	if a.False() {
		return b
	}
	if b.False() {
		return a
	}
	if a == b {
		return a
	}
	return intern(&T{Op: "or", Args: []*T{a, b}})
}
func Eq(a, b *T) *T {
	if a == b {
		return BoolC(true)
	}
	if a.IsC && b.IsC {
		return BoolC(a.C == b.C)
	}
	if a.W != b.W {
		panic(fmt.Sprintf("Eq width %d %d", a.W, b.W))
	}
	// (ite c x y) == const : distribute over constant-leaf ite trees (table lookups)
	if a.IsC && constLeafIte(b, 300) {
		return mapIteLeavesBool(b, func(c *T) *T { return BoolC(c.C == a.C) })
	}
	if b.IsC && constLeafIte(a, 300) {
		return mapIteLeavesBool(a, func(c *T) *T { return BoolC(c.C == b.C) })
	}
	if a.id > b.id {
		a, b = b, a
	}
	return intern(&T{Op: "=", Args: []*T{a, b}})
}
func Ite(c, a, b *T) *T {
	if c.True() {
		return a
	}
	if c.False() {
		return b
	}
	if a == b {
		return a
	}
	if a.W != b.W {
		panic("Ite width")
	}
	if a.W == 0 {
		if a.True() && b.False() {
			return c
		}
		if a.False() && b.True() {
			return Not(c)
		}
	}
	return intern(&T{Op: "ite", W: a.W, Args: []*T{c, a, b}})
}

// Bin builds a bit-vector binary op with SMT-LIB name op.
func Bin(op string, a, b *T) *T {
	if a.W != b.W {
		panic(fmt.Sprintf("Bin %s width %d %d", op, a.W, b.W))
	}
	w := a.W
	if a.IsC && b.IsC {
		x, y := a.C, b.C
		switch op {
		case "bvadd":
			return BV(w, x+y)
		case "bvsub":
			return BV(w, x-y)
		case "bvmul":
			return BV(w, x*y)
		case "bvand":
			return BV(w, x&y)
		case "bvor":
			return BV(w, x|y)
		case "bvxor":
			return BV(w, x^y)
		case "bvshl":
			if y >= uint64(w) {
				return BV(w, 0)
			}
			return BV(w, x<<y)
		case "bvlshr":
			if y >= uint64(w) {
				return BV(w, 0)
			}
			return BV(w, x>>y)
		case "bvashr":
			s := sx(w, x)
			if y >= uint64(w) {
				y = uint64(w - 1)
			}
			return BV(w, uint64(s>>y))
		case "bvudiv":
			if y != 0 {
				return BV(w, x/y)
			}
		case "bvurem":
			if y != 0 {
				return BV(w, x%y)
			}
		case "bvsdiv":
			if y != 0 {
				return BV(w, uint64(sx(w, x)/sx(w, y)))
			}
		case "bvsrem":
			if y != 0 {
				return BV(w, uint64(sx(w, x)%sx(w, y)))
			}
		}
	}
	switch op {
	case "bvadd":
		if a.IsC && a.C == 0 {
			return b
		}
		if b.IsC && b.C == 0 {
			return a
		}
		// (x + c1) + c2
		if b.IsC && a.Op == "bvadd" && a.Args[1].IsC {
			return Bin("bvadd", a.Args[0], BV(w, a.Args[1].C+b.C))
		}
		if b.IsC && constLeafIte(a, 300) {
			return mapIteLeaves(a, func(c *T) *T { return BV(w, c.C+b.C) })
		}
		if a.IsC && constLeafIte(b, 300) {
			return mapIteLeaves(b, func(c *T) *T { return BV(w, c.C+a.C) })
		}
		if a.IsC {
			a, b = b, a
		}
	case "bvsub":
		if b.IsC && b.C == 0 {
			return a
		}
		if a == b {
			return BV(w, 0)
		}
		if b.IsC {
			return Bin("bvadd", a, BV(w, -b.C))
		}
	case "bvmul":
		if (a.IsC && a.C == 0) || (b.IsC && b.C == 0) {
			return BV(w, 0)
		}
		if !a.IsC && !b.IsC {
			if constLeafIte(a, 40) {
				return mapIteLeaves(a, func(c *T) *T { return Bin("bvmul", c, b) })
			}
			if constLeafIte(b, 40) {
				return mapIteLeaves(b, func(c *T) *T { return Bin("bvmul", a, c) })
			}
		}
		// multiply by power of two -> shift
		if b.IsC && b.C&(b.C-1) == 0 {
			return Bin("bvshl", a, BV(w, uint64(bits.TrailingZeros64(b.C))))
		}
		if a.IsC && a.C&(a.C-1) == 0 {
			return Bin("bvshl", b, BV(w, uint64(bits.TrailingZeros64(a.C))))
		}
		if a.IsC && a.C == 1 {
			return b
		}
		if b.IsC && b.C == 1 {
			return a
		}
	case "bvand":
		if (a.IsC && a.C == 0) || (b.IsC && b.C == 0) {
			return BV(w, 0)
		}
		if a.IsC && a.C == mask(w) {
			return b
		}
		if b.IsC && b.C == mask(w) {
			return a
		}
	case "bvor", "bvxor":
		if a.IsC && a.C == 0 {
			return b
		}
		if b.IsC && b.C == 0 {
			return a
		}
	case "bvshl", "bvlshr", "bvashr":
		if b.IsC && b.C == 0 {
			return a
		}
	case "bvudiv", "bvsdiv":
		if b.IsC && b.C == 1 {
			return a
		}
	case "bvurem":
		if b.IsC && b.C == 1 {
			return BV(w, 0)
		}
	}
	switch op {
	case "bvor":
		// canonical form of or-chains (byte assembly is written in both orders in the code base): flatten, sort, rebuild
		var leaves []*T
		var flat func(t *T)
		flat = func(t *T) {
			if t.Op == "bvor" && !t.IsC {
				flat(t.Args[0])
				flat(t.Args[1])
				return
			}
			leaves = append(leaves, t)
		}
		flat(a)
		flat(b)
		if len(leaves) > 2 && len(leaves) <= 16 {
			sort.Slice(leaves, func(i, j int) bool { return leaves[i].id < leaves[j].id })
			r := leaves[0]
			for _, l := range leaves[1:] {
				if l == r {
					continue
				}
				x, y := r, l
				r = intern(&T{Op: "bvor", W: w, Args: []*T{x, y}})
			}
			return r
		}
		if a.id > b.id {
			a, b = b, a
		}
	case "bvand", "bvxor", "bvmul":
		if a.id > b.id {
			a, b = b, a
		}
	case "bvadd":
		if !a.IsC && !b.IsC && a.id > b.id {
			a, b = b, a
		}
	}
	return intern(&T{Op: op, W: w, Args: []*T{a, b}})
}

// Cmp builds a comparison: bvult bvule bvslt bvsle (and reversed by swapping).
func Cmp(op string, a, b *T) *T {
	if a.W != b.W {
		panic(fmt.Sprintf("Cmp %s width %d %d", op, a.W, b.W))
	}
	if a.IsC && b.IsC {
		switch op {
		case "bvult":
			return BoolC(a.C < b.C)
		case "bvule":
			return BoolC(a.C <= b.C)
		case "bvslt":
			return BoolC(sx(a.W, a.C) < sx(a.W, b.C))
		case "bvsle":
			return BoolC(sx(a.W, a.C) <= sx(a.W, b.C))
		}
	}
	if a == b {
		return BoolC(op == "bvule" || op == "bvsle")
	}
	if a.IsC && constLeafIte(b, 300) {
		return mapIteLeavesBool(b, func(c *T) *T { return Cmp(op, a, c) })
	}
	if b.IsC && constLeafIte(a, 300) {
		return mapIteLeavesBool(a, func(c *T) *T { return Cmp(op, c, b) })
	}
	return intern(&T{Op: op, Args: []*T{a, b}})
}

func Extract(hi, lo int, a *T) *T {
	w := hi - lo + 1
	if w == a.W {
		return a
	}
	if a.IsC {
		return BV(w, a.C>>uint(lo))
	}
	if a.Op == "zext" && hi < a.Args[0].W {
		return Extract(hi, lo, a.Args[0])
	}
	if a.Op == "zext" && lo >= a.Args[0].W {
		return BV(w, 0)
	}
	if a.Op == "concat" {
		lw := a.Args[1].W
		if hi < lw {
			return Extract(hi, lo, a.Args[1])
		}
		if lo >= lw {
			return Extract(hi-lw, lo-lw, a.Args[0])
		}
	}
	return intern(&T{Op: "extract", W: w, P1: hi, P2: lo, Args: []*T{a}})
}
func Concat(hi, lo *T) *T {
	if hi.IsC && lo.IsC && hi.W+lo.W <= 64 {
		return BV(hi.W+lo.W, hi.C<<uint(lo.W)|lo.C)
	}
	if hi.IsC && hi.C == 0 {
		return ZExt(hi.W+lo.W, lo)
	}
	return intern(&T{Op: "concat", W: hi.W + lo.W, Args: []*T{hi, lo}})
}
func ZExt(w int, a *T) *T {
	if w == a.W {
		return a
	}
	if w < a.W {
		return Extract(w-1, 0, a)
	}
	if a.IsC {
		return BV(w, a.C)
	}
	if a.Op == "zext" {
		return ZExt(w, a.Args[0])
	}
	return intern(&T{Op: "zext", W: w, P1: w - a.W, Args: []*T{a}})
}
func SExt(w int, a *T) *T {
	if w == a.W {
		return a
	}
	if w < a.W {
		return Extract(w-1, 0, a)
	}
	if a.IsC {
		return BV(w, uint64(sx(a.W, a.C)))
	}
	return intern(&T{Op: "sext", W: w, P1: w - a.W, Args: []*T{a}})
}

var _ = bits.Len

func sortStr(w int) string {
	if w == 0 {
		return "Bool"
	}
	return fmt.Sprintf("(_ BitVec %d)", w)
}

func constStr(t *T) string {
	if t.W == 0 {
		if t.C == 1 {
			return "true"
		}
		return "false"
	}
	if t.W%4 == 0 {
		return fmt.Sprintf("#x%0*x", t.W/4, t.C)
	}
	return fmt.Sprintf("(_ bv%d %d)", t.C, t.W)
}

// constLeafIte reports whether t is an ite tree (through zext) whose leaves are all constants, with at most n ite nodes.
func constLeafIte(t *T, n int) bool {
	cnt := 0
	var rec func(t *T) bool
	rec = func(t *T) bool {
		if t.IsC {
			return true
		}
		if t.Op == "ite" {
			cnt++
			if cnt > n {
				return false
			}
			return rec(t.Args[1]) && rec(t.Args[2])
		}
		if t.Op == "zext" {
			return rec(t.Args[0])
		}
		return false
	}
	if t.Op != "ite" && t.Op != "zext" {
		return false
	}
	return rec(t) && cnt > 0
}

func mapIteLeavesBool(t *T, f func(c *T) *T) *T {
	if t.IsC {
		return f(t)
	}
	if t.Op == "zext" {
		return mapIteLeavesBool(pushZext(t.W, t.Args[0]), f)
	}
	a, b := mapIteLeavesBool(t.Args[1], f), mapIteLeavesBool(t.Args[2], f)
	c := t.Args[0]
	switch {
	case a == b:
		return a
	case a.True() && b.False():
		return c
	case a.False() && b.True():
		return Not(c)
	case a.True():
		return Or(c, b)
	case a.False():
		return And(Not(c), b)
	case b.True():
		return Or(Not(c), a)
	case b.False():
		return And(c, a)
	}
	return Ite(c, a, b)
}

func mapIteLeaves(t *T, f func(c *T) *T) *T {
	if t.IsC {
		return f(t)
	}
	if t.Op == "zext" {
		return mapIteLeaves(pushZext(t.W, t.Args[0]), f)
	}
	return Ite(t.Args[0], mapIteLeaves(t.Args[1], f), mapIteLeaves(t.Args[2], f))
}

func pushZext(w int, t *T) *T {
	if t.IsC {
		return BV(w, t.C)
	}
	if t.Op == "ite" {
		return Ite(t.Args[0], pushZext(w, t.Args[1]), pushZext(w, t.Args[2]))
	}
	return ZExt(w, t)
}
