package main

import (
	"bufio"
	"fmt"
	"io"
	"os/exec"
	"strconv"
	"strings"
	"time"
)

type Solver struct {
	cmd     *exec.Cmd
	in      io.WriteCloser
	w       *bufio.Writer
	out     *bufio.Reader
	level   int
	defined map[*T]int // term -> level at which it was defined
	defLog  [][]*T     // per level: terms defined at that level
	funcs   map[string]int
	funLog  [][]string
	Queries int
	Sat     int
	Unsat   int
	Unknown int
	Time    time.Duration
	Log     io.Writer
}

func NewSolver() *Solver {
	cmd := exec.Command("z3", "-in")
	in, _ := cmd.StdinPipe()
	out, _ := cmd.StdoutPipe()
	cmd.Stderr = cmd.Stdout
	if err := cmd.Start(); err != nil {
		panic(err)
	}
	s := &Solver{cmd: cmd, in: in, w: bufio.NewWriterSize(in, 1<<16), out: bufio.NewReader(out), defined: map[*T]int{}, defLog: [][]*T{nil}, funcs: map[string]int{}, funLog: [][]string{nil}}
	s.send("(set-option :timeout 60000)")
	s.send("(set-logic QF_UFBV)")
	return s
}

func (s *Solver) send(str string) {
	if s.Log != nil {
		fmt.Fprintln(s.Log, str)
	}
	s.w.WriteString(str)
	s.w.WriteByte('\n')
}

func (s *Solver) Push() {
	s.send("(push 1)")
	s.level++
	s.defLog = append(s.defLog, nil)
	s.funLog = append(s.funLog, nil)
}
func (s *Solver) Pop() {
	s.send("(pop 1)")
	for _, t := range s.defLog[s.level] {
		delete(s.defined, t)
	}
	for _, f := range s.funLog[s.level] {
		delete(s.funcs, f)
	}
	s.defLog = s.defLog[:s.level]
	s.funLog = s.funLog[:s.level]
	s.level--
}

// name returns the solver-side name of t, emitting definitions as needed.
func (s *Solver) name(t *T) string {
	if t.IsC {
		return constStr(t)
	}
	if _, ok := s.defined[t]; ok {
		if t.Op == "var" {
			return t.Name
		}
		return "t" + strconv.Itoa(t.id)
	}
	// iterative post-order to avoid deep recursion
	type fr struct {
		t *T
		i int
	}
	stack := []fr{{t, 0}}
	for len(stack) > 0 {
		f := &stack[len(stack)-1]
		if f.t.IsC {
			stack = stack[:len(stack)-1]
			continue
		}
		if _, ok := s.defined[f.t]; ok {
			stack = stack[:len(stack)-1]
			continue
		}
		if f.i < len(f.t.Args) {
			a := f.t.Args[f.i]
			f.i++
			if !a.IsC {
				if _, ok := s.defined[a]; !ok {
					stack = append(stack, fr{a, 0})
				}
			}
			continue
		}
		s.emit(f.t)
		stack = stack[:len(stack)-1]
	}
	if t.Op == "var" {
		return t.Name
	}
	return "t" + strconv.Itoa(t.id)
}

func (s *Solver) ref(a *T) string {
	if a.IsC {
		return constStr(a)
	}
	if a.Op == "var" {
		return a.Name
	}
	return "t" + strconv.Itoa(a.id)
}

func (s *Solver) emit(t *T) {
	s.defined[t] = s.level
	s.defLog[s.level] = append(s.defLog[s.level], t)
	if t.Op == "var" {
		s.send(fmt.Sprintf("(declare-const %s %s)", t.Name, sortStr(t.W)))
		return
	}
	var sb strings.Builder
	switch t.Op {
	case "app":
		if _, ok := s.funcs[t.Name]; !ok {
			s.funcs[t.Name] = s.level
			s.funLog[s.level] = append(s.funLog[s.level], t.Name)
			var as []string
			for _, a := range t.Args {
				as = append(as, sortStr(a.W))
			}
			s.send(fmt.Sprintf("(declare-fun %s (%s) %s)", t.Name, strings.Join(as, " "), sortStr(t.W)))
		}
		sb.WriteString("(" + t.Name)
	case "extract":
		fmt.Fprintf(&sb, "((_ extract %d %d)", t.P1, t.P2)
	case "zext":
		fmt.Fprintf(&sb, "((_ zero_extend %d)", t.P1)
	case "sext":
		fmt.Fprintf(&sb, "((_ sign_extend %d)", t.P1)
	default:
		sb.WriteString("(" + t.Op)
	}
	for _, a := range t.Args {
		sb.WriteString(" ")
		sb.WriteString(s.ref(a))
	}
	sb.WriteString(")")
	s.send(fmt.Sprintf("(declare-const t%d %s)", t.id, sortStr(t.W)))
	s.send(fmt.Sprintf("(assert (= t%d %s))", t.id, sb.String()))
}

func (s *Solver) Assert(t *T) {
	if t.True() {
		return
	}
	n := s.name(t)
	s.send("(assert " + n + ")")
}

func (s *Solver) readLine() string {
	s.w.Flush()
	l, err := s.out.ReadString('\n')
	if err != nil {
		panic("solver died: " + err.Error())
	}
	return strings.TrimSpace(l)
}

// Check returns "sat", "unsat" or "unknown" for the current assertions.
func (s *Solver) Check() string {
	t0 := time.Now()
	s.send("(check-sat)")
	r := s.readLine()
	s.Time += time.Since(t0)
	s.Queries++
	switch r {
	case "sat":
		s.Sat++
	case "unsat":
		s.Unsat++
	default:
		if strings.HasPrefix(r, "(error") {
			panic("solver error: " + r)
		}
		s.Unknown++
		r = "unknown"
	}
	return r
}

// CheckWith checks satisfiability of current assertions plus extra.
func (s *Solver) CheckWith(extra *T) string {
	if extra.True() {
		return s.Check()
	}
	if extra.False() {
		return "unsat"
	}
	s.Push()
	s.Assert(extra)
	r := s.Check()
	s.Pop()
	return r
}

// Value evaluates a BV/Bool term in the current model (after a sat Check at the same level).
func (s *Solver) Value(t *T) uint64 {
	if t.IsC {
		return t.C
	}
	n := s.name(t)
	s.send("(get-value (" + n + "))")
	l := s.readLine()
	for strings.Count(l, "(") > strings.Count(l, ")") {
		l += " " + s.readLine()
	}
	// ((name value))
	i := strings.LastIndex(l, " ")
	v := strings.TrimRight(l[i+1:], ")")
	if strings.HasPrefix(l, "(error") {
		panic("get-value: " + l)
	}
	if v == "true" {
		return 1
	}
	if v == "false" {
		return 0
	}
	if strings.HasPrefix(v, "#x") {
		u, _ := strconv.ParseUint(v[2:], 16, 64)
		return u
	}
	if strings.HasPrefix(v, "#b") {
		u, _ := strconv.ParseUint(v[2:], 2, 64)
		return u
	}
	// (_ bvN w)
	if j := strings.Index(l, "(_ bv"); j >= 0 {
		f := strings.Fields(l[j+5:])
		u, _ := strconv.ParseUint(f[0], 10, 64)
		return u
	}
	panic("cannot parse value: " + l)
}

var bindSeq int

// Bind returns a fresh variable asserted equal to t in the current scope (cheap model reads).
func (s *Solver) Bind(t *T) *T {
	if t.IsC || t.Op == "var" {
		if t.Op == "var" {
			s.name(t)
		}
		return t
	}
	bindSeq++
	v := Var("gv"+strconv.Itoa(bindSeq), t.W)
	s.Assert(Eq(v, t))
	return v
}

func (s *Solver) Close() { s.w.Flush(); s.in.Close(); s.cmd.Wait() }
