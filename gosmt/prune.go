package main

// Harness pruning: the harnesses are in-package Go files that name unexported identifiers of the repository. When the
// repository is refactored (a function renamed, a field removed), some harness functions no longer type-check against
// the current tree. Such functions are blanked out (with everything that depends on them) so that the remaining
// harnesses still run; every pruned entry point is reported as not decided on this tree.

import (
	"encoding/json"
	"fmt"
	"go/ast"
	"go/parser"
	"go/token"
	"os"
	"path/filepath"
	"regexp"
	"sort"
	"strconv"
	"strings"

	"golang.org/x/tools/go/packages"
)

// pruneFns: overlay path -> top-level declaration names to blank
var pruneFns = map[string]map[string]string{} // path -> name -> reason

func init() {
	if s := os.Getenv("ZZ_PRUNE"); s != "" {
		json.Unmarshal([]byte(s), &pruneFns)
	}
}

// applyPrune blanks the named top-level declarations of one file (line structure preserved).
func applyPrune(path string, src []byte) []byte {
	names := pruneFns[path]
	if len(names) == 0 {
		return src
	}
	fset := token.NewFileSet()
	f, err := parser.ParseFile(fset, path, src, parser.ParseComments)
	if err != nil {
		return src
	}
	out := append([]byte(nil), src...)
	for _, im := range f.Imports { // imports left unused by the pruning become blank imports
		if _, ok := names["import:"+strings.Trim(im.Path.Value, `"`)]; ok {
			a := fset.Position(im.Pos()).Offset
			b := fset.Position(im.Path.Pos()).Offset
			// "path" -> _ "path" does not fit in place: overwrite an alias if present, else shift by replacing the line
			line := string(out[a:fset.Position(im.End()).Offset])
			_ = b
			repl := "_ " + im.Path.Value
			pad := len(line) - len(repl)
			if pad >= 0 {
				copy(out[a:], repl+strings.Repeat(" ", pad))
			} else {
				out = append(out[:a], append([]byte(repl), out[a+len(line):]...)...)
				// offsets after this point moved: re-parse for the remaining work
				return applyPruneAgain(path, out, names, "import:"+strings.Trim(im.Path.Value, `"`))
			}
		}
	}
	blank := func(from, to token.Pos) {
		a, b := fset.Position(from).Offset, fset.Position(to).Offset
		for i := a; i < b && i < len(out); i++ {
			if out[i] != '\n' {
				out[i] = ' '
			}
		}
	}
	for _, d := range f.Decls {
		switch x := d.(type) {
		case *ast.FuncDecl:
			if x.Recv == nil {
				if _, ok := names[x.Name.Name]; ok {
					from := x.Pos()
					if x.Doc != nil {
						from = x.Doc.Pos()
					}
					blank(from, x.End())
				}
			}
		case *ast.GenDecl:
			for _, sp := range x.Specs {
				if vs, ok := sp.(*ast.ValueSpec); ok {
					for _, n := range vs.Names {
						if _, ok := names[n.Name]; ok {
							blank(x.Pos(), x.End())
						}
					}
				}
			}
		}
	}
	return out
}

// applyPruneAgain continues after an edit that changed offsets (one import done)
func applyPruneAgain(path string, src []byte, names map[string]string, done string) []byte {
	rest := map[string]string{}
	for k, v := range names {
		if k != done {
			rest[k] = v
		}
	}
	save := pruneFns[path]
	pruneFns[path] = rest
	out := applyPrune(path, src)
	pruneFns[path] = save
	return out
}

var importUnusedRe = regexp.MustCompile(`^"([^"]+)" imported (as \S+ )?and not used`)

var errPosRe = regexp.MustCompile(`^(.*?):(\d+):(\d+)$`)

// declAt: the name of the top-level declaration of file src that contains line
func declAt(path string, src []byte, line int) string {
	fset := token.NewFileSet()
	f, err := parser.ParseFile(fset, path, src, 0)
	if err != nil {
		return ""
	}
	for _, d := range f.Decls {
		a, b := fset.Position(d.Pos()).Line, fset.Position(d.End()).Line
		if line < a || line > b {
			continue
		}
		switch x := d.(type) {
		case *ast.FuncDecl:
			if x.Recv == nil {
				return x.Name.Name
			}
		case *ast.GenDecl:
			for _, sp := range x.Specs {
				if vs, ok := sp.(*ast.ValueSpec); ok && len(vs.Names) > 0 {
					return vs.Names[0].Name
				}
			}
		}
	}
	return ""
}

// computePrune type-checks the repository with the harness overlay and, while errors are located in harness files,
// prunes the declarations that contain them. It returns the pruned entry points (name -> first error) or an error when
// the repository itself (or the support library) does not compile.
func computePrune(extra map[string][]byte) (map[string]string, error) {
	pruned := map[string]string{}
	for round := 0; round < 8; round++ {
		ov, err := buildOverlay(extra)
		if err != nil {
			return nil, err
		}
		cfg := &packages.Config{Mode: packages.NeedName | packages.NeedFiles | packages.NeedCompiledGoFiles | packages.NeedImports | packages.NeedTypes | packages.NeedSyntax | packages.NeedTypesInfo | packages.NeedDeps,
			Dir: repoDir, Overlay: ov, Env: append(os.Environ(), "GOFLAGS=-mod=mod", "GOPROXY=off", "GOSUMDB=off", "GOTOOLCHAIN=local")}
		pkgs, err := packages.Load(cfg, "./...")
		if err != nil {
			return nil, err
		}
		var fatal []string
		progress := false
		packages.Visit(pkgs, nil, func(p *packages.Package) {
			for _, e := range p.Errors {
				mm := errPosRe.FindStringSubmatch(e.Pos)
				if mm == nil {
					fatal = append(fatal, e.Error())
					continue
				}
				file := mm[1]
				line, _ := strconv.Atoi(mm[2])
				base := filepath.Base(file)
				src, isOv := ov[file]
				if !isOv || !strings.HasPrefix(base, "zz_verif_") || base == "zz_verif_lib.go" {
					fatal = append(fatal, e.Error())
					continue
				}
				name := declAt(file, src, line)
				if mm := importUnusedRe.FindStringSubmatch(e.Msg); mm != nil {
					name = "import:" + mm[1]
				}
				if name == "" {
					fatal = append(fatal, e.Error())
					continue
				}
				if pruneFns[file] == nil {
					pruneFns[file] = map[string]string{}
				}
				if _, done := pruneFns[file][name]; !done {
					pruneFns[file][name] = e.Msg
					pruned[name] = fmt.Sprintf("%s: %s", e.Pos[len(repoDir)+1:], e.Msg)
					progress = true
				}
			}
		})
		if len(fatal) > 0 {
			sort.Strings(fatal)
			return pruned, fmt.Errorf("the repository (or the harness support library) does not compile: %s", strings.Join(fatal[:min(len(fatal), 5)], "; "))
		}
		if !progress {
			return pruned, nil
		}
	}
	return pruned, fmt.Errorf("harness pruning did not converge")
}

func pruneEnv() string {
	b, _ := json.Marshal(pruneFns)
	return "ZZ_PRUNE=" + string(b)
}
