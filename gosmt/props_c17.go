package main

import (
	"bytes"
	"encoding/json"
	"fmt"
	"go/types"
	"os"
	"path/filepath"
	"sort"
	"strconv"
	"strings"

	"golang.org/x/tools/go/packages"
)

// C17: per documented enumeration (spec/enum_names.json) a generated harness compares the stringer with the
// documented names over the whole integer domain; every other named integer type with a String/Extension method
// (found in the type-checked repository on each run) gets a panic-freedom harness over its whole domain.

type enumSpec struct {
	Type           string            `json:"type"`
	Method         string            `json:"method"`
	Bits           int               `json:"domain_bits"`
	Signed         bool              `json:"signed"`
	Fallback       string            `json:"fallback"`
	Names          map[string]string `json:"names"`
	Parse          string            `json:"parse"`
	ParseRoundtrip bool              `json:"parse_roundtrip"`
	PanicOnly      []int             `json:"panic_only_values"`
}

func symCall(bits int, signed bool) string {
	switch {
	case bits == 8:
		return `zzU8("v")`
	case bits == 16 && signed:
		return `zzI16("v")`
	case bits == 16:
		return `zzU16("v")`
	case bits == 32 && signed:
		return `zzI32("v")`
	case bits == 32:
		return `zzU32("v")`
	}
	return `zzU64("v")`
}

func genC17(tier int) (map[string][]byte, error) {
	b, err := os.ReadFile(filepath.Join(verifDir, "spec/enum_names.json"))
	if err != nil {
		return nil, err
	}
	var spec struct {
		Types []enumSpec `json:"types"`
	}
	if err := json.Unmarshal(b, &spec); err != nil {
		return nil, err
	}
	files := map[string]*bytes.Buffer{} // rel dir -> source
	pkgNames := map[string]string{}
	cfg := &packages.Config{Mode: packages.NeedName | packages.NeedTypes | packages.NeedImports | packages.NeedDeps, Dir: repoDir, Env: goEnv()}
	pkgs, err := packages.Load(cfg, "./...")
	if err != nil {
		return nil, err
	}
	relOf := func(path string) string { return strings.TrimPrefix(strings.TrimPrefix(path, repoMod), "/") }
	buf := func(path, name string) *bytes.Buffer {
		rel := relOf(path)
		if files[rel] == nil {
			files[rel] = &bytes.Buffer{}
			pkgNames[rel] = name
			fmt.Fprintf(files[rel], "package %s\n\n// generated on every run from /verif/spec/enum_names.json and the type-checked repository\n\n", name)
		}
		return files[rel]
	}
	documented := map[string]bool{}
	byPath := map[string]*packages.Package{}
	for _, p := range pkgs {
		byPath[p.PkgPath] = p
	}
	for _, e := range spec.Types {
		i := strings.LastIndex(e.Type, ".")
		path, tname := e.Type[:i], e.Type[i+1:]
		p := byPath[path]
		if p == nil || p.Types.Scope().Lookup(tname) == nil {
			return nil, fmt.Errorf("documented type %s not found in the repository", e.Type)
		}
		documented[e.Type+"."+e.Method] = true
		sb := buf(path, p.Name)
		fn := fmt.Sprintf("zzC17_%s_%s", tname, e.Method)
		fmt.Fprintf(sb, "// %s.%s over all %d-bit values: documented names and fallback\nfunc %s() {\n\tv := %s(%s)\n\ts := v.%s()\n\tswitch int64(v) {\n", tname, e.Method, e.Bits, fn, tname, symCall(e.Bits, e.Signed), e.Method)
		var keys []int
		for k := range e.Names {
			n, _ := strconv.Atoi(k)
			keys = append(keys, n)
		}
		sort.Ints(keys)
		for _, k := range keys {
			fmt.Fprintf(sb, "\tcase %d:\n\t\tzzAssert(s == %q, %q)\n", k, e.Names[strconv.Itoa(k)], fmt.Sprintf("%s(%d).%s() is its documented name", tname, k, e.Method))
		}
		if len(e.PanicOnly) > 0 {
			sb.WriteString("\tcase ")
			for i, v := range e.PanicOnly {
				if i > 0 {
					sb.WriteString(", ")
				}
				fmt.Fprintf(sb, "%d", v)
			}
			sb.WriteString(":\n\t\t// no documented name: only 'returns a string' is required\n")
		}
		fmt.Fprintf(sb, "\tdefault:\n\t\tzzAssert(s == %q, %q)\n\t}\n\tzzReached(\"end\")\n}\n\n", e.Fallback, fmt.Sprintf("undocumented %s values format as the documented fallback", tname))
		if e.ParseRoundtrip && e.Parse != "" {
			fn2 := fmt.Sprintf("zzC17_%s_%s_parse", tname, e.Method)
			fmt.Fprintf(sb, "// parsing a documented name returns the value it names\nfunc %s() {\n", fn2)
			for _, k := range keys {
				name := e.Names[strconv.Itoa(k)]
				if name == e.Fallback && k != 0 {
					continue
				}
				arg := fmt.Sprintf("%s(%d).%s()", tname, k, e.Method)
				if e.Parse == "IdentifyNamespace" {
					arg = "[]byte(" + arg + ")"
				}
				fmt.Fprintf(sb, "\tzzAssert(%s(%s) == %s(%d), %q)\n", e.Parse, arg, tname, k, fmt.Sprintf("%s(%s(%d).%s()) == %d", e.Parse, tname, k, e.Method, k))
			}
			fmt.Fprintf(sb, "\tzzReached(\"end\")\n}\n\n")
		}
	}
	// panic-freedom for every other integer-typed stringer
	for _, p := range pkgs {
		if !strings.HasPrefix(p.PkgPath, repoMod) || strings.HasPrefix(p.PkgPath, repoMod+"/cmd") || strings.Contains(p.PkgPath, "/gen") || p.Types == nil {
			continue
		}
		sc := p.Types.Scope()
		names := sc.Names()
		sort.Strings(names)
		for _, n := range names {
			tn, ok := sc.Lookup(n).(*types.TypeName)
			if !ok || tn.IsAlias() {
				continue
			}
			named, ok := tn.Type().(*types.Named)
			if !ok {
				continue
			}
			bt, ok := named.Underlying().(*types.Basic)
			if !ok || bt.Info()&types.IsInteger == 0 {
				continue
			}
			w, signed, _ := intWidth(named)
			for i := 0; i < named.NumMethods(); i++ {
				m := named.Method(i)
				sig := m.Type().(*types.Signature)
				if sig.Params().Len() != 0 || sig.Results().Len() != 1 {
					continue
				}
				if rb, ok := sig.Results().At(0).Type().(*types.Basic); !ok || rb.Kind() != types.String {
					continue
				}
				if _, ptr := sig.Recv().Type().(*types.Pointer); ptr {
					continue
				}
				if documented[p.PkgPath+"."+n+"."+m.Name()] {
					continue
				}
				sb := buf(p.PkgPath, p.Name)
				fmt.Fprintf(sb, "// %s.%s never panics, for any %d-bit value\nfunc zzC17_p_%s_%s() {\n\tv := %s(%s)\n\t_ = v.%s()\n\tzzReached(\"end\")\n}\n\n", n, m.Name(), w, n, m.Name(), n, symCall(w, signed), m.Name())
			}
		}
	}
	out := map[string][]byte{}
	for rel, sb := range files {
		out[filepath.Join(rel, "zz_verif_c17_gen.go")] = sb.Bytes()
	}
	return out, nil
}

func init() {
	register(&CheckDef{ID: "C17", Level: "proof", Gen: genC17, Timeout: [2]int{600, 900},
		Assumptions: []string{
			"fmt.Sprintf with arguments is a stub returning an opaque string: 'returns a string' for %-formatted fallbacks holds by the stub's contract; fmt.Sprintf(s) without arguments and without '%' returns s",
			"documented names are /verif/spec/enum_names.json (written from the doc comments and the tables they cite)",
		},
		Bounds: map[string]interface{}{"domain": "every value of the underlying integer type (8/16/32-bit), negative values of signed types included; tag.ID x IfdType lookups: all 2^16 ids per directory type"},
	})
}
