package main

import (
	"fmt"
	"go/types"
	"strings"

	"golang.org/x/tools/go/ssa"
)

type intrFn = func(m *Machine, fr *Frame, args []Value, call ssa.Instruction, isDefer bool) (Value, int)

type memReader struct {
	data    *ByteArr
	L       *T
	pos     *T
	chunked bool
	reqs    *T
}

var models = map[*Loc]*memReader{}
var errSeq int

func goString(v Value) string {
	s := v.(Str)
	b := make([]byte, len(s.B))
	for i, c := range s.B {
		b[i] = byte(c.C)
	}
	return string(b)
}

func (m *Machine) findIntr(fn *ssa.Function) intrFn {
	full := fn.String()
	if h, ok := m.intr[full]; ok {
		return h
	}
	name := fn.Name()
	if strings.HasPrefix(name, "zz") {
		if h, ok := m.intr[name]; ok {
			return h
		}
	}
	if fn.Signature.Recv() != nil {
		rt := fn.Signature.Recv().Type().String()
		if i := strings.LastIndex(rt, "."); i >= 0 && strings.HasPrefix(rt[i+1:], "zz") {
			if h, ok := m.intr["(*"+rt[i+1:]+")."+name]; ok {
				return h
			}
		}
	}
	if fn.Pkg != nil {
		p := fn.Pkg.Pkg.Path()
		if name == "init" && !isRepoPkg(fn.Pkg) {
			return func(m *Machine, fr *Frame, args []Value, call ssa.Instruction, isDefer bool) (Value, int) { return nil, 1 }
		}
		switch {
		case strings.HasPrefix(p, "github.com/rs/zerolog"):
			return zerologStub(fn)
		case p == "github.com/pkg/errors" || p == "errors" || p == "fmt" || p == "runtime" || p == "time" || p == "math" || p == "strconv" || p == "os" || p == "github.com/klauspost/cpuid/v2":
			if h, ok := m.intr[full]; ok {
				return h
			}
			return genericStub(fn)
		}
	}
	return nil
}

func zeroResult(fn *ssa.Function) Value {
	res := fn.Signature.Results()
	if res.Len() == 0 {
		return nil
	}
	if res.Len() == 1 {
		return zeroValue(res.At(0).Type())
	}
	t := make(Tuple, res.Len())
	for i := range t {
		t[i] = zeroValue(res.At(i).Type())
	}
	return t
}

func zerologStub(fn *ssa.Function) intrFn {
	return func(m *Machine, fr *Frame, args []Value, call ssa.Instruction, isDefer bool) (Value, int) {
		if fn.Name() == "GetLevel" {
			return BV(8, 5), 1 // PanicLevel
		}
		return zeroResult(fn), 1
	}
}

func isErrorType(t types.Type) bool {
	it, ok := t.Underlying().(*types.Interface)
	return ok && it.NumMethods() == 1 && it.Method(0).Name() == "Error"
}

func genericStub(fn *ssa.Function) intrFn {
	return func(m *Machine, fr *Frame, args []Value, call ssa.Instruction, isDefer bool) (Value, int) {
		p := fn.Pkg.Pkg.Path()
		name := fn.Name()
		res := fn.Signature.Results()
		// error constructors
		if res.Len() == 1 && isErrorType(res.At(0).Type()) {
			if p == "github.com/pkg/errors" && (strings.HasPrefix(name, "Wrap") || strings.HasPrefix(name, "With")) {
				if e, ok := args[0].(Iface); ok && e.T == nil {
					return Iface{}, 1
				}
			}
			errSeq++
			return m.opaqueErr(fmt.Sprintf("%s.%s#%d", p, name, errSeq)), 1
		}
		if p == "fmt" && (name == "Println" || name == "Printf" || name == "Print") {
			m.report("stdout", m.where(), "write to fd 1 via fmt."+name)
			return zeroResult(fn), 1
		}
		if p == "fmt" && name == "Sprintf" {
			return Str{B: []*T{BV(8, '?')}}, 1
		}
		// uninterpreted scalar functions
		if res.Len() == 1 {
			if w := floatWidth(res.At(0).Type()); w > 0 {
				var as []*T
				for _, a := range args {
					if t, ok := a.(*T); ok {
						as = append(as, t)
					}
				}
				return App("uf_"+strings.ReplaceAll(p, "/", "_")+"_"+name, w, as...), 1
			}
		}
		return zeroResult(fn), 1
	}
}

func newVarBA(name string, n int) (*ByteArr, []*T) {
	vars := make([]*T, n)
	for i := range vars {
		vars[i] = Var(fmt.Sprintf("%s_%d", name, i), 8)
	}
	baSeq++
	return &ByteArr{n: n, name: name, base: func(i *T) *T {
		if i.IsC {
			if int(i.C) < n {
				return vars[i.C]
			}
			return BV(8, 0)
		}
		r := BV(8, 0)
		for k := n - 1; k >= 0; k-- {
			r = Ite(Eq(i, BV(64, uint64(k))), vars[k], r)
		}
		return r
	}}, vars
}

func registerIntrinsics(m *Machine) {
	I := m.intr
	done := func(v Value) (Value, int) { return v, 1 }
	I["zzBytes"] = func(m *Machine, fr *Frame, a []Value, call ssa.Instruction, d bool) (Value, int) {
		name := goString(a[0])
		n := int(a[1].(*T).C)
		ba, vars := newVarBA(name, n)
		m.inputs = append(m.inputs, vars...)
		ln := BV(64, uint64(n))
		return done(Slice{BA: ba, Off: BV(64, 0), Len: ln, Cap: ln})
	}
	mkInt := func(w int) intrFn {
		return func(m *Machine, fr *Frame, a []Value, call ssa.Instruction, d bool) (Value, int) {
			v := Var(goString(a[0]), w)
			m.inputs = append(m.inputs, v)
			return done(v)
		}
	}
	I["zzInt"] = mkInt(64)
	I["zzU8"] = mkInt(8)
	I["zzU16"] = mkInt(16)
	I["zzU32"] = mkInt(32)
	I["zzAssume"] = func(m *Machine, fr *Frame, a []Value, call ssa.Instruction, d bool) (Value, int) {
		if !m.decide(a[0].(*T)) {
			panic(pathEnd{"assume"})
		}
		return done(nil)
	}
	I["zzAssert"] = func(m *Machine, fr *Frame, a []Value, call ssa.Instruction, d bool) (Value, int) {
		if !m.decide(a[0].(*T)) {
			m.report("assert", goString(a[1]), m.where())
		}
		return done(nil)
	}
	I["zzReached"] = func(m *Machine, fr *Frame, a []Value, call ssa.Instruction, d bool) (Value, int) {
		reached[goString(a[0])]++
		return done(nil)
	}
	// zzStream(name, maxLen) *zzMemReader : UF-backed stream of symbolic length <= maxLen
	I["zzStream"] = func(m *Machine, fr *Frame, a []Value, call ssa.Instruction, d bool) (Value, int) {
		name := goString(a[0])
		max := a[1].(*T).C
		fn := call.(*ssa.Call).Call.StaticCallee()
		pt := fn.Signature.Results().At(0).Type().(*types.Pointer)
		loc := newLoc(pt.Elem())
		L := Var(name+"_len", 64)
		m.inputs = append(m.inputs, L)
		m.sol.Assert(Cmp("bvule", L, BV(64, max)))
		models[loc] = &memReader{data: newUFBA(int(max), name), L: L, pos: BV(64, 0), reqs: BV(64, 0)}
		streams = append(streams, models[loc])
		return done(Ptr{L: loc})
	}
	// zzReaderOf(b []byte) *zzMemReader : stream over a harness-built slice
	I["zzReaderOf"] = func(m *Machine, fr *Frame, a []Value, call ssa.Instruction, d bool) (Value, int) {
		s := a[0].(Slice)
		fn := call.(*ssa.Call).Call.StaticCallee()
		pt := fn.Signature.Results().At(0).Type().(*types.Pointer)
		loc := newLoc(pt.Elem())
		// snapshot view: data[i] = s[off+i]
		src := s.BA
		off := s.Off
		nupd := len(src.upd)
		baSeq++
		view := &ByteArr{n: src.n, name: "view", base: func(i *T) *T { return src.readAt(Bin("bvadd", off, i), nupd) }}
		models[loc] = &memReader{data: view, L: s.Len, pos: BV(64, 0), reqs: BV(64, 0)}
		return done(Ptr{L: loc})
	}
	I["(*zzMemReader).Read"] = func(m *Machine, fr *Frame, a []Value, call ssa.Instruction, d bool) (Value, int) {
		r := models[a[0].(Ptr).L]
		p := a[1].(Slice)
		avail := Bin("bvsub", r.L, r.pos)
		n := Ite(Cmp("bvult", avail, p.Len), avail, p.Len)
		eof := And(Eq(n, BV(64, 0)), Not(Eq(p.Len, BV(64, 0))))
		isEOF := m.decide(eof)
		if isEOF {
			return done(Tuple{BV(64, 0), m.opaqueErr("io.EOF")})
		}
		if p.BA != nil {
			m.baCopy(p.BA, p.Off, n, r.data, r.pos)
		}
		old := r.pos
		oreq := r.reqs
		r.pos = Bin("bvadd", r.pos, n)
		r.reqs = Bin("bvadd", r.reqs, p.Len)
		m.trail = append(m.trail, func() { r.pos = old; r.reqs = oreq })
		return done(Tuple{n, Iface{}})
	}
	I["(*zzMemReader).Seek"] = func(m *Machine, fr *Frame, a []Value, call ssa.Instruction, d bool) (Value, int) {
		r := models[a[0].(Ptr).L]
		off := a[1].(*T)
		wh := m.conc(a[2].(*T), 3)
		var np *T
		switch wh {
		case 0:
			np = off
		case 1:
			np = Bin("bvadd", r.pos, off)
		default:
			np = Bin("bvadd", r.L, off)
		}
		if !m.decide(Cmp("bvsle", BV(64, 0), np)) {
			errSeq++
			return done(Tuple{BV(64, 0), m.opaqueErr("seek.negative")})
		}
		old := r.pos
		r.pos = np
		m.trail = append(m.trail, func() { r.pos = old })
		return done(Tuple{np, Iface{}})
	}
	I["(*sync.Pool).Get"] = func(m *Machine, fr *Frame, a []Value, call ssa.Instruction, d bool) (Value, int) {
		p := a[0].(Ptr).L
		st := p.typ.Underlying().(*types.Struct)
		for i := 0; i < st.NumFields(); i++ {
			if st.Field(i).Name() == "New" {
				nf := m.load(p.sub[i]).(Func)
				if nf.Fn == nil {
					return done(Iface{})
				}
				m.callValue(nf, nil, call, d)
				return nil, 2
			}
		}
		panic("sync.Pool.New not found")
	}
	I["(*sync.Pool).Put"] = func(m *Machine, fr *Frame, a []Value, call ssa.Instruction, d bool) (Value, int) { return done(nil) }
	for _, n := range []string{"Lock", "Unlock", "RLock", "RUnlock"} {
		I["(*sync.RWMutex)."+n] = func(m *Machine, fr *Frame, a []Value, call ssa.Instruction, d bool) (Value, int) { return done(nil) }
	}
	I["bytes.Equal"] = func(m *Machine, fr *Frame, a []Value, call ssa.Instruction, d bool) (Value, int) {
		x, y := a[0].(Slice), a[1].(Slice)
		if !m.decide(Eq(x.Len, y.Len)) {
			return done(BoolC(false))
		}
		n := int(m.conc(x.Len, 4096))
		r := BoolC(true)
		for k := 0; k < n; k++ {
			kk := BV(64, uint64(k))
			r = And(r, Eq(x.BA.Read(Bin("bvadd", x.Off, kk)), y.BA.Read(Bin("bvadd", y.Off, kk))))
		}
		return done(r)
	}
	I["bytes.IndexByte"] = func(m *Machine, fr *Frame, a []Value, call ssa.Instruction, d bool) (Value, int) {
		s := a[0].(Slice)
		c := a[1].(*T)
		n := int(m.conc(s.Len, 8192))
		for k := 0; k < n; k++ {
			if m.decide(Eq(s.BA.Read(Bin("bvadd", s.Off, BV(64, uint64(k)))), c)) {
				return done(BV(64, uint64(k)))
			}
		}
		return done(BV(64, ^uint64(0)))
	}
	I["io.LimitReader"] = nil
	delete(I, "io.LimitReader")
}

var reached = map[string]int{}
var streams []*memReader
