package main

import (
	"time"
	"os"
	"fmt"
	"go/types"
	"math"
	"strings"

	"golang.org/x/tools/go/ssa"
)

type intrFn = func(m *Machine, fr *Frame, args []Value, call ssa.Instruction, isDefer bool) (Value, int)

// memReader is the input-stream model (DESIGN §5): data[:L] then EOF or an injected error.
type memReader struct {
	name    string
	max     int
	data    *ByteArr
	L       *T // BV64
	pos     *T // BV64
	fail    *T // Bool: terminal error is an injected error instead of io.EOF
	chunked bool
	eofAt   *T // ReadAt: io.EOF together with a full read that ends at the end of the input
	arb     int // number of reads with an arbitrary count (chunked)
	nread   int
	reqs    *T
	eofData *T
	concLen bool
}

var models = map[*Loc]*memReader{}
var errSeq int
var reached = map[string]int{}
var streams []*memReader

func resetHarnessState() {
	models = map[*Loc]*memReader{}
	reached = map[string]int{}
	streams = nil
}

func goString(v Value) string {
	s := v.(Str)
	b := make([]byte, len(s.B))
	for i, c := range s.B {
		if !c.IsC {
			panic(unsupported{"symbolic string where a constant is required"})
		}
		b[i] = byte(c.C)
	}
	return string(b)
}

// packages whose functions are replaced by stubs unless listed in interpretFns
var stubPkgs = map[string]bool{
	"github.com/pkg/errors": true, "errors": true, "fmt": true, "runtime": true, "time": true, "math": true,
	"strconv": true, "os": true, "github.com/klauspost/cpuid/v2": true, "log": true, "sort": true, "reflect": true,
	"internal/bytealg": true, "unicode": true,
}

// functions of stubbed packages that are nevertheless interpreted from their real SSA
var interpretFns = map[string]bool{
	"strconv.AppendInt": true, "strconv.AppendUint": true, "strconv.ParseUint": true, "strconv.Itoa": true, "strconv.FormatInt": true,
	"strconv.FormatUint": true, "strconv.formatBits": true, "strconv.small": true, "strconv.underscoreOK": true, "strconv.lower": true,
	"strconv.Atoi": true, "strconv.ParseInt": true, "strconv.syntaxError": true, "strconv.rangeError": true, "strconv.baseError": true, "strconv.bitSizeError": true,
	"strconv.cloneString": true, "strconv.formatBits$1": true,
	"(time.Month).String": false,
}

// packages whose synthetic init is executed (others: init skipped, sentinel globals are opaque values)
var initPkgs = map[string]bool{
	"encoding/hex": true, "encoding/binary": true, "image/color": true, "image": true, "unicode/utf8": true,
	"github.com/tinylib/msgp/msgp": false,
}

func (m *Machine) findIntr(fn *ssa.Function) intrFn {
	full := fn.String()
	if h, ok := m.intr[full]; ok {
		return h
	}
	name := fn.Name()
	if strings.HasPrefix(name, "zz") {
		if h, ok := m.intr[name]; ok {
			return h
		}
	}
	if fn.Signature.Recv() != nil {
		rt := fn.Signature.Recv().Type().String()
		if i := strings.LastIndex(rt, "."); i >= 0 && strings.HasPrefix(rt[i+1:], "zz") {
			if h, ok := m.intr["(*"+rt[i+1:]+")."+name]; ok {
				return h
			}
		}
	}
	if fn.Pkg != nil {
		p := fn.Pkg.Pkg.Path()
		if name == "init" && fn.Signature.Recv() == nil && !isRepoPkg(fn.Pkg) && !initPkgs[p] {
			return func(m *Machine, fr *Frame, args []Value, call ssa.Instruction, isDefer bool) (Value, int) { return nil, 1 }
		}
		switch {
		case strings.HasPrefix(p, "github.com/rs/zerolog"):
			return zerologStub(fn)
		case stubPkgs[p]:
			if interpretFns[full] {
				return nil
			}
			return genericStub(fn)
		}
	}
	return nil
}

func zeroResult(fn *ssa.Function) Value {
	res := fn.Signature.Results()
	if res.Len() == 0 {
		return nil
	}
	if res.Len() == 1 {
		return zeroValue(res.At(0).Type())
	}
	t := make(Tuple, res.Len())
	for i := range t {
		t[i] = zeroValue(res.At(i).Type())
	}
	return t
}

// ---- zerolog model (DESIGN §5) ----

var zlLevels = map[string]int{"Trace": -1, "Debug": 0, "Info": 1, "Warn": 2, "Error": 3, "Fatal": 4, "Panic": 5}

func loggerLevel(v Value) *T {
	// zerolog.Logger struct: field "level"
	switch x := v.(type) {
	case Struct:
		return x.F[1].(*T)
	case Ptr:
		if x.L != nil && len(x.L.sub) > 1 {
			return x.L.sub[1].v.(*T)
		}
	}
	panic(unsupported{"zerolog logger value shape"})
}

func zerologStub(fn *ssa.Function) intrFn {
	name := fn.Name()
	recv := ""
	if fn.Signature.Recv() != nil {
		recv = fn.Signature.Recv().Type().String()
	}
	isLogger := strings.HasSuffix(recv, "zerolog.Logger")
	isEvent := strings.HasSuffix(recv, "zerolog.Event")
	if isLogger && (name == "GetLevel" || name == "Level") {
		return nil // interpreted from the real SSA
	}
	isContext := strings.HasSuffix(recv, "zerolog.Context")
	return func(m *Machine, fr *Frame, args []Value, call ssa.Instruction, isDefer bool) (Value, int) {
		if isLogger && name == "With" {
			return Struct{F: []Value{args[0]}}, 1 // Context{l}
		}
		if isContext && name == "Logger" {
			return args[0].(Struct).F[0], 1
		}
		if isLogger {
			lvl := -100
			var lvlT *T
			if l, ok := zlLevels[name]; ok {
				lvl = l
			}
			if name == "Err" {
				// Err(err): Error level when err != nil, Info otherwise
				if e, ok := args[1].(Iface); ok && e.T != nil {
					lvl = 3
				} else {
					lvl = 1
				}
			}
			if name == "WithLevel" {
				lvlT = args[1].(*T)
			} else if lvl != -100 {
				lvlT = BV(8, uint64(lvl))
			}
			if lvlT != nil {
				cur := loggerLevel(args[0])
				// enabled iff level >= cur (signed int8) and cur != Disabled(7) and level != NoLevel quirks ignored
				en := And(Cmp("bvsle", cur, lvlT), Not(Eq(cur, BV(8, 7))))
				if m.decide(en) {
					m.logEvents++
					ev := &Loc{typ: fn.Signature.Results().At(0).Type().(*types.Pointer).Elem(), v: BoolC(true)}
					return Ptr{L: ev}, 1
				}
				return Ptr{Nil: true}, 1
			}
			return zeroResult(fn), 1
		}
		if isEvent {
			ev := args[0].(Ptr)
			res := fn.Signature.Results()
			if ev.Nil {
				if res.Len() == 1 {
					if _, ok := res.At(0).Type().(*types.Pointer); ok {
						return Ptr{Nil: true}, 1
					}
				}
				return zeroResult(fn), 1
			}
			// enabled event: call back into the argument's marshaler / stringer / Error
			switch name {
			case "Object", "EmbedObject", "Array", "Stringer", "Err", "AnErr", "Interface":
				a := args[len(args)-1]
				if iv, ok := a.(Iface); ok && iv.T != nil {
					var mname string
					switch name {
					case "Object", "EmbedObject":
						mname = "MarshalZerologObject"
					case "Array":
						mname = "MarshalZerologArray"
					case "Stringer":
						mname = "String"
					case "Err", "AnErr":
						mname = "Error"
					}
					if mname != "" && iv.T != m.errType {
						ms := m.prog.MethodSets.MethodSet(iv.T)
						for i := 0; i < ms.Len(); i++ {
							if ms.At(i).Obj().Name() == mname {
								cf := m.prog.MethodValue(ms.At(i))
								if cf != nil && cf.Blocks != nil {
									cargs := []Value{iv.V}
									if mname == "MarshalZerologObject" || mname == "MarshalZerologArray" {
										pt := cf.Signature.Params().At(0).Type()
										if p, ok := pt.(*types.Pointer); ok {
											cargs = append(cargs, Ptr{L: &Loc{typ: p.Elem(), v: BoolC(true)}})
										} else {
											cargs = append(cargs, zeroValue(pt))
										}
									}
									// run the callback, drop its result, then deliver ev as the result of this call
									evv := ev
									m.callWithAfter(Func{Fn: cf}, cargs, call, isDefer, func(m *Machine, r Value) Value { return evv })
									return nil, 2
								}
							}
						}
					}
				}
				return ev, 1
			case "Send", "Msg", "Msgf":
				m.logWrites++
				return nil, 1
			}
			if res.Len() == 1 {
				if _, ok := res.At(0).Type().(*types.Pointer); ok {
					return ev, 1
				}
			}
			return zeroResult(fn), 1
		}
		// zerolog.Array / Context / free functions: arrays used inside marshalers return themselves
		res := fn.Signature.Results()
		if res.Len() == 1 && fn.Signature.Recv() != nil {
			if types.Identical(res.At(0).Type(), fn.Signature.Recv().Type()) {
				return args[0], 1
			}
		}
		if res.Len() == 1 {
			if p, ok := res.At(0).Type().(*types.Pointer); ok && (name == "Arr" || name == "Dict") {
				return Ptr{L: &Loc{typ: p.Elem(), v: BoolC(true)}}, 1
			}
		}
		return zeroResult(fn), 1
	}
}

func isErrorType(t types.Type) bool {
	it, ok := t.Underlying().(*types.Interface)
	return ok && it.NumMethods() == 1 && it.Method(0).Name() == "Error"
}

func f64of(t *T, w int) float64 {
	if w == 32 {
		return float64(math.Float32frombits(uint32(t.C)))
	}
	return math.Float64frombits(t.C)
}

var mathFns = map[string]func(a ...float64) float64{
	"Sqrt": func(a ...float64) float64 { return math.Sqrt(a[0]) }, "Pow": func(a ...float64) float64 { return math.Pow(a[0], a[1]) },
	"Abs": func(a ...float64) float64 { return math.Abs(a[0]) }, "Floor": func(a ...float64) float64 { return math.Floor(a[0]) },
	"Round": func(a ...float64) float64 { return math.Round(a[0]) }, "Cos": func(a ...float64) float64 { return math.Cos(a[0]) },
	"Max": func(a ...float64) float64 { return math.Max(a[0], a[1]) }, "Min": func(a ...float64) float64 { return math.Min(a[0], a[1]) },
	"Copysign": func(a ...float64) float64 { return math.Copysign(a[0], a[1]) }, "Log2": func(a ...float64) float64 { return math.Log2(a[0]) },
	"Ceil": func(a ...float64) float64 { return math.Ceil(a[0]) }, "Trunc": func(a ...float64) float64 { return math.Trunc(a[0]) },
	"Log": func(a ...float64) float64 { return math.Log(a[0]) }, "Exp": func(a ...float64) float64 { return math.Exp(a[0]) },
	"Sin": func(a ...float64) float64 { return math.Sin(a[0]) },
}

func genericStub(fn *ssa.Function) intrFn {
	return func(m *Machine, fr *Frame, args []Value, call ssa.Instruction, isDefer bool) (Value, int) {
		p := fn.Pkg.Pkg.Path()
		name := fn.Name()
		res := fn.Signature.Results()
		m.stubsUsed[fn.String()]++
		if p == "math" {
			switch name {
			case "Float32bits", "Float32frombits", "Float64bits", "Float64frombits":
				return args[0], 1
			case "IsNaN":
				return floatIsNaN(64, args[0].(*T)), 1
			case "IsInf":
				t := args[0].(*T)
				if t.IsC && args[1].(*T).IsC {
					return BoolC(math.IsInf(math.Float64frombits(t.C), int(int64(args[1].(*T).C)))), 1
				}
				return App("uf_isinf", 0, t, args[1].(*T)), 1
			}
			if f, ok := mathFns[name]; ok {
				all := true
				var fs []float64
				var as []*T
				for _, a := range args {
					t := a.(*T)
					as = append(as, t)
					if !t.IsC {
						all = false
					} else {
						fs = append(fs, math.Float64frombits(t.C))
					}
				}
				if all {
					return BV(64, math.Float64bits(f(fs...))), 1
				}
				return App("uf_math_"+name, 64, as...), 1
			}
		}
		// error constructors
		if res.Len() == 1 && isErrorType(res.At(0).Type()) {
			if p == "github.com/pkg/errors" && (strings.HasPrefix(name, "Wrap") || strings.HasPrefix(name, "With")) {
				if e, ok := args[0].(Iface); ok && e.T == nil {
					return Iface{}, 1
				}
			}
			m.ghostAlloc(BV(64, 256))
			errSeq++
			return m.opaqueErr(fmt.Sprintf("%s.%s#%d", p, name, errSeq)), 1
		}
		if p == "fmt" && (name == "Println" || name == "Printf" || name == "Print") {
			m.stdoutWrites++
			m.trail = append(m.trail, func() { m.stdoutWrites-- })
			if m.stdoutIsFinding {
				m.reportSite("stdout", m.where(), m.site(), "write to fd 1 via fmt."+name, m.stackNames())
			}
			return zeroResult(fn), 1
		}
		if p == "fmt" && name == "Sprintf" && len(args) == 2 {
			// Sprintf(format) without operands and without a verb is the identity
			if va, ok := args[1].(Slice); ok && va.Len.IsC && va.Len.C == 0 {
				f := args[0].(Str)
				noVerb := BoolC(true)
				for _, b := range f.B {
					noVerb = And(noVerb, Not(Eq(b, BV(8, '%'))))
				}
				if m.decide(noVerb) {
					return f, 1
				}
			}
		}
		if p == "fmt" && (name == "Sprintf" || name == "Sprint" || name == "Sprintln") {
			m.ghostAlloc(BV(64, 256))
			return Str{B: []*T{BV(8, '?')}}, 1
		}
		if p == "os" && name == "Exit" {
			panic(pathEnd{"os.Exit"})
		}
		if p == "strconv" {
			switch name {
			case "ParseFloat":
				// (float64, error): value and success are uninterpreted functions of the text
				s := args[0].(Str)
				h := strHash(s)
				ok := App("uf_parsefloat_ok", 0, h, BV(64, uint64(len(s.B))))
				v := App("uf_parsefloat", 64, h, BV(64, uint64(len(s.B))))
				if m.decide(ok) {
					return Tuple{v, Iface{}}, 1
				}
				errSeq++
				return Tuple{BV(64, 0), m.opaqueErr(fmt.Sprintf("strconv.ParseFloat#%d", errSeq))}, 1
			case "AppendFloat":
				// appends an opaque, non-empty decimal text: modelled as one uninterpreted byte '#'
				dst := args[0].(Slice)
				return m.appendBytes(dst, []*T{BV(8, '#')}), 1
			case "FormatFloat":
				return Str{B: []*T{BV(8, '#')}}, 1
			}
		}
		if p == "time" {
			return timeStub(m, fn, args)
		}
		// uninterpreted scalar functions
		if res.Len() == 1 {
			if w := floatWidth(res.At(0).Type()); w > 0 {
				var as []*T
				for _, a := range args {
					if t, ok := a.(*T); ok {
						as = append(as, t)
					}
				}
				return App("uf_"+strings.ReplaceAll(strings.ReplaceAll(p, "/", "_"), ".", "_")+"_"+name, w, as...), 1
			}
		}
		return zeroResult(fn), 1
	}
}

// strHash folds a symbolic string into a 64-bit term that is injective for strings up to 8 bytes and an
// uninterpreted combination beyond (only used as the argument of uninterpreted parsers).
func strHash(s Str) *T {
	h := BV(64, 0)
	for i, b := range s.B {
		if i < 8 {
			h = Bin("bvor", h, Bin("bvshl", ZExt(64, b), BV(64, uint64(8*i))))
		} else {
			h = App("uf_strmix", 64, h, ZExt(64, b))
		}
	}
	return h
}

// timeStub: time values are opaque; constructors return a Time whose wall/ext fields are uninterpreted
// functions of the integer components, so equality of instants reduces to equality of the components.
func timeStub(m *Machine, fn *ssa.Function, args []Value) (Value, int) {
	name := fn.Name()
	res := fn.Signature.Results()
	var override []*T // when set: the arguments that identify the result (concrete evaluation)
	collect := func() []*T {
		if override != nil {
			return override
		}
		var as []*T
		var rec func(v Value)
		rec = func(v Value) {
			switch x := v.(type) {
			case *T:
				if x.W > 0 {
					as = append(as, x)
				}
			case Struct:
				for _, f := range x.F {
					rec(f)
				}
			case Str:
				as = append(as, strHash(x), BV(64, uint64(len(x.B))))
			case Ptr:
				if x.L != nil {
					if t, ok := x.L.v.(*T); ok && t.W > 0 {
						as = append(as, t)
					}
				} else if x.Nil {
					as = append(as, BV(64, 0))
				}
			}
		}
		for _, a := range args {
			rec(a)
		}
		return as
	}
	mk := func(t types.Type, tag string) Value {
		as := collect()
		var rec func(t types.Type, path string) Value
		rec = func(t types.Type, path string) Value {
			switch u := t.Underlying().(type) {
			case *types.Struct:
				s := Struct{F: make([]Value, u.NumFields())}
				for i := range s.F {
					s.F[i] = rec(u.Field(i).Type(), fmt.Sprintf("%s_%d", path, i))
				}
				return s
			case *types.Pointer:
				// *time.Location: an opaque location object; the same arguments give the same object
				key := "uf_time_" + tag + path
				for _, a := range as {
					key += fmt.Sprintf(",%d", a.id)
				}
				if l, ok := m.opaqueLocs[key]; ok {
					return Ptr{L: l}
				}
				idt := App("uf_time_"+tag+path, 64, as...)
				l := &Loc{typ: u.Elem(), v: idt, opaqueID: idt}
				m.opaqueLocs[key] = l
				return Ptr{L: l}
			case *types.Basic:
				if w, _, ok := intWidth(t); ok {
					return App("uf_time_"+tag+path, w, as...)
				}
				if u.Kind() == types.String {
					return Str{B: []*T{BV(8, '?')}}
				}
				if u.Kind() == types.Bool {
					return App("uf_time_"+tag+path, 0, as...)
				}
			case *types.Interface:
				return Iface{}
			}
			return zeroValue(t)
		}
		return rec(t, "")
	}
	tag := name
	if fn.Signature.Recv() != nil {
		rt := fn.Signature.Recv().Type().String()
		tag = strings.NewReplacer("*", "p", ".", "_", "/", "_").Replace(rt) + "_" + name
	}
	if res.Len() == 0 {
		return nil, 1
	}
	if name == "Parse" && len(args) == 2 {
		// concrete layout and text: the real time.Parse decides; the result is identified by (seconds, nanoseconds, zone offset)
		if l, ok1 := args[0].(Str); ok1 {
			if v, ok2 := args[1].(Str); ok2 {
				conc := func(x Str) (string, bool) {
					b := make([]byte, len(x.B))
					for i, c := range x.B {
						if !c.IsC {
							return "", false
						}
						b[i] = byte(c.C)
					}
					return string(b), true
				}
				ls, okl := conc(l)
				vs, okv := conc(v)
				if okl && okv {
					tm, err := time.Parse(ls, vs)
					if err != nil {
						errSeq++
						return Tuple{zeroValue(res.At(0).Type()), m.opaqueErr(fmt.Sprintf("time.Parse#%d", errSeq))}, 1
					}
					_, off := tm.Zone()
					override = []*T{BV(64, uint64(tm.Unix())), BV(64, uint64(tm.Nanosecond())), BV(64, uint64(int64(off)))}
					return Tuple{mk(res.At(0).Type(), "ParseC"), Iface{}}, 1
				}
			}
		}
	}
	if name == "Parse" || name == "ParseInLocation" {
		as := collect()
		ok := App("uf_time_parse_ok", 0, as...)
		if m.decide(ok) {
			return Tuple{mk(res.At(0).Type(), tag), Iface{}}, 1
		}
		errSeq++
		return Tuple{zeroValue(res.At(0).Type()), m.opaqueErr(fmt.Sprintf("time.Parse#%d", errSeq))}, 1
	}
	if res.Len() == 1 {
		return mk(res.At(0).Type(), tag), 1
	}
	t := make(Tuple, res.Len())
	for i := range t {
		t[i] = mk(res.At(i).Type(), fmt.Sprintf("%s_r%d", tag, i))
	}
	return t, 1
}

func newVarBA(name string, n int) (*ByteArr, []*T) {
	vars := make([]*T, n)
	for i := range vars {
		vars[i] = Var(fmt.Sprintf("%s_%d", name, i), 8)
	}
	baSeq++
	return &ByteArr{n: n, name: name, base: func(i *T) *T {
		if i.IsC {
			if int(i.C) < n {
				return vars[i.C]
			}
			return BV(8, 0)
		}
		r := BV(8, 0)
		for k := n - 1; k >= 0; k-- {
			r = Ite(Eq(i, BV(64, uint64(k))), vars[k], r)
		}
		return r
	}}, vars
}

func (m *Machine) addInput(v *T) {
	m.inputs = append(m.inputs, v)
	m.trail = append(m.trail, func() { m.inputs = m.inputs[:len(m.inputs)-1] })
}

func (m *Machine) addStream(loc *Loc, r *memReader) {
	models[loc] = r
	streams = append(streams, r)
	m.trail = append(m.trail, func() { delete(models, loc); streams = streams[:len(streams)-1] })
}

func (m *Machine) ghostAlloc(n *T) {
	old := m.allocated
	m.allocated = Bin("bvadd", m.allocated, n)
	m.trail = append(m.trail, func() { m.allocated = old })
}

func readerLocType(call ssa.Instruction) types.Type {
	fn := call.(*ssa.Call).Call.StaticCallee()
	return fn.Signature.Results().At(0).Type().(*types.Pointer).Elem()
}

func registerIntrinsics(m *Machine) {
	I := m.intr
	done := func(v Value) (Value, int) { return v, 1 }
	I["zzBytes"] = func(m *Machine, fr *Frame, a []Value, call ssa.Instruction, d bool) (Value, int) {
		name := goString(a[0])
		n := int(a[1].(*T).C)
		ba, vars := newVarBA(name, n)
		for _, v := range vars {
			m.addInput(v)
		}
		ln := BV(64, uint64(n))
		return done(Slice{BA: ba, Off: BV(64, 0), Len: ln, Cap: ln})
	}
	mkInt := func(w int) intrFn {
		return func(m *Machine, fr *Frame, a []Value, call ssa.Instruction, d bool) (Value, int) {
			v := Var(goString(a[0]), w)
			m.addInput(v)
			return done(v)
		}
	}
	I["zzInt"] = mkInt(64)
	I["zzU8"] = mkInt(8)
	I["zzU16"] = mkInt(16)
	I["zzU32"] = mkInt(32)
	I["zzU64"] = mkInt(64)
	I["zzI16"] = mkInt(16)
	I["zzI32"] = mkInt(32)
	I["zzBool"] = func(m *Machine, fr *Frame, a []Value, call ssa.Instruction, d bool) (Value, int) {
		v := Var(goString(a[0]), 64)
		m.addInput(v)
		return done(Not(Eq(v, BV(64, 0))))
	}
	I["zzTier"] = func(m *Machine, fr *Frame, a []Value, call ssa.Instruction, d bool) (Value, int) {
		return done(BV(64, uint64(m.tier)))
	}
	I["zzPart"] = func(m *Machine, fr *Frame, a []Value, call ssa.Instruction, d bool) (Value, int) {
		return done(BV(64, uint64(m.part)))
	}
	I["zzAssume"] = func(m *Machine, fr *Frame, a []Value, call ssa.Instruction, d bool) (Value, int) {
		c := a[0].(*T)
		if c.IsC {
			if c.C == 0 {
				panic(pathEnd{"assume"})
			}
			return done(nil)
		}
		if v, ok := m.assumed[c]; ok || c.Op == "not" {
			if !ok {
				v = m.decide(c)
			}
			if !v {
				panic(pathEnd{"assume"})
			}
			return done(nil)
		}
		// no fork: the path simply continues under c (one feasibility query)
		if m.sol.CheckWith(c) == "unsat" {
			panic(pathEnd{"assume"})
		}
		m.sol.Assert(c)
		m.setAssumed(c, true)
		m.pushDecision(c)
		return done(nil)
	}
	I["zzAssert"] = func(m *Machine, fr *Frame, a []Value, call ssa.Instruction, d bool) (Value, int) {
		msg := goString(a[1])
		m.assertsSeen[msg]++
		if !m.decide(a[0].(*T)) {
			m.reportSite("assert", m.where(), "assert: "+msg, msg, nil)
			panic(pathEnd{"assert"})
		}
		return done(nil)
	}
	I["zzReached"] = func(m *Machine, fr *Frame, a []Value, call ssa.Instruction, d bool) (Value, int) {
		reached[goString(a[0])]++
		return done(nil)
	}
	I["zzStream"] = func(m *Machine, fr *Frame, a []Value, call ssa.Instruction, d bool) (Value, int) {
		name := goString(a[0])
		max := a[1].(*T).C
		loc := newLoc(readerLocType(call))
		L := Var(name+"_len", 64)
		F := Var(name+"_fail", 64)
		m.addInput(L)
		m.addInput(F)
		m.sol.Assert(Cmp("bvule", L, BV(64, max)))
		m.addStream(loc, &memReader{name: name, max: int(max), data: newUFBA(int(max), name), L: L, pos: BV(64, 0), reqs: BV(64, 0), fail: Not(Eq(F, BV(64, 0)))})
		return done(Ptr{L: loc})
	}
	mkReaderOf := func(trunc, chunked bool, arb int) intrFn {
		return func(m *Machine, fr *Frame, a []Value, call ssa.Instruction, d bool) (Value, int) {
			s := a[0].(Slice)
			loc := newLoc(readerLocType(call))
			src := s.BA
			off := s.Off
			nupd := 0
			if src != nil {
				nupd = len(src.upd)
			}
			baSeq++
			view := &ByteArr{n: 0, name: "view", base: func(i *T) *T {
				if src == nil {
					return BV(8, 0)
				}
				return src.readAt(Bin("bvadd", off, i), nupd)
			}}
			r := &memReader{name: "r", data: view, L: s.Len, pos: BV(64, 0), reqs: BV(64, 0), fail: BoolC(false), chunked: chunked, arb: arb}
			if trunc || chunked {
				r.name = goString(a[1])
			}
			if trunc {
				// the length is a narrow variable zero-extended to 64 bits (cheaper bit-blasting of the index arithmetic)
				lw := 64
				if s.Len.IsC && s.Len.C < 256 {
					lw = 8
				} else if s.Len.IsC && s.Len.C < 65536 {
					lw = 16
				}
				Lv := Var(r.name+"_len", lw)
				L := ZExt(64, Lv)
				F := Var(r.name+"_fail", 64)
				m.addInput(Lv)
				m.addInput(F)
				m.sol.Assert(Cmp("bvule", L, s.Len))
				r.L = L
				r.concLen = true
				r.fail = Not(Eq(F, BV(64, 0)))
			}
			if chunked {
				e := Var(r.name+"_eofdata", 64)
				m.addInput(e)
				r.eofData = Not(Eq(e, BV(64, 0)))
			}
			models[loc] = r
			m.trail = append(m.trail, func() { delete(models, loc) })
			return done(Ptr{L: loc})
		}
	}
	I["zzReaderOf"] = mkReaderOf(false, false, 3)
	I["zzReaderTrunc"] = mkReaderOf(true, false, 3)
	I["zzChunkedReaderOf"] = mkReaderOf(false, true, 3)
	I["zzChunkedReaderOf2"] = mkReaderOf(false, true, 2)
	setPos := func(m *Machine, r *memReader, np *T) {
		old := r.pos
		r.pos = np
		m.trail = append(m.trail, func() { r.pos = old })
	}
	addReq := func(m *Machine, r *memReader, n *T) {
		old := r.reqs
		r.reqs = Bin("bvadd", r.reqs, n)
		m.trail = append(m.trail, func() { r.reqs = old })
	}
	termErr := func(m *Machine, r *memReader) Iface {
		if m.decide(r.fail) {
			return m.opaqueErr("zz.injected")
		}
		return m.opaqueErr("io.EOF")
	}
	I["(*zzMemReader).Read"] = func(m *Machine, fr *Frame, a []Value, call ssa.Instruction, d bool) (Value, int) {
		r := models[a[0].(Ptr).L]
		p := a[1].(Slice)
		addReq(m, r, p.Len)
		if !r.L.IsC && r.concLen {
			// truncated skeleton streams: case split over the truncation point at the first read, so that the
			// bytes delivered are the skeleton's concrete bytes (a symbolic copy length would make every byte conditional)
			lv := m.conc(r.L, 1<<17)
			old := r.L
			r.L = BV(64, lv)
			m.trail = append(m.trail, func() { r.L = old })
		}
		if m.decide(Eq(p.Len, BV(64, 0))) {
			return done(Tuple{BV(64, 0), Iface{}})
		}
		if m.decide(Cmp("bvule", r.L, r.pos)) {
			return done(Tuple{BV(64, 0), termErr(m, r)})
		}
		avail := Bin("bvsub", r.L, r.pos)
		n := Ite(Cmp("bvult", avail, p.Len), avail, p.Len)
		var err Value = Iface{}
		if r.chunked && r.nread < r.arb {
			// the first reads (three, or two for zzChunkedReaderOf2) deliver an arbitrary legal count (case split); later reads deliver all that is asked
			k := Var(fmt.Sprintf("%s_c%d", r.name, r.nread), 64)
			m.addInput(k)
			m.sol.Assert(Cmp("bvule", BV(64, 1), k))
			m.sol.Assert(Cmp("bvule", k, n))
			n = BV(64, m.conc(k, 4200))
			if m.decide(And(Eq(n, avail), r.eofData)) {
				err = m.opaqueErr("io.EOF")
			}
		}
		onr := r.nread
		r.nread++
		m.trail = append(m.trail, func() { r.nread = onr })
		if p.BA != nil {
			m.baCopy(p.BA, p.Off, n, r.data, r.pos)
		}
		setPos(m, r, Bin("bvadd", r.pos, n))
		return done(Tuple{n, err})
	}
	I["(*zzMemReader).Seek"] = func(m *Machine, fr *Frame, a []Value, call ssa.Instruction, d bool) (Value, int) {
		r := models[a[0].(Ptr).L]
		off := a[1].(*T)
		wh := m.conc(a[2].(*T), 4)
		var np *T
		switch wh {
		case 0:
			np = off
		case 1:
			np = Bin("bvadd", r.pos, off)
		case 2:
			np = Bin("bvadd", r.L, off)
		default:
			return done(Tuple{BV(64, 0), m.opaqueErr("zz.badwhence")})
		}
		if !m.decide(Cmp("bvsle", BV(64, 0), np)) {
			return done(Tuple{BV(64, 0), m.opaqueErr("zz.seek.negative")})
		}
		setPos(m, r, np)
		return done(Tuple{np, Iface{}})
	}
	I["(*zzMemReader).ReadAt"] = func(m *Machine, fr *Frame, a []Value, call ssa.Instruction, d bool) (Value, int) {
		r := models[a[0].(Ptr).L]
		p := a[1].(Slice)
		off := a[2].(*T)
		addReq(m, r, p.Len)
		if m.decide(Cmp("bvslt", off, BV(64, 0))) {
			return done(Tuple{BV(64, 0), m.opaqueErr("zz.readat.negative")})
		}
		if m.decide(Cmp("bvule", r.L, off)) {
			return done(Tuple{BV(64, 0), termErr(m, r)})
		}
		avail := Bin("bvsub", r.L, off)
		n := Ite(Cmp("bvult", avail, p.Len), avail, p.Len)
		if p.BA != nil {
			m.baCopy(p.BA, p.Off, n, r.data, off)
		}
		if m.decide(Cmp("bvult", n, p.Len)) {
			return done(Tuple{n, termErr(m, r)})
		}
		// a ReaderAt may return io.EOF together with a full read that ends exactly at the end of the input
		if r.eofAt == nil {
			e := Var(r.name+"_eofat", 64)
			m.addInput(e)
			r.eofAt = Not(Eq(e, BV(64, 0)))
		}
		if m.decide(And(Eq(Bin("bvadd", off, n), r.L), r.eofAt)) {
			return done(Tuple{n, m.opaqueErr("io.EOF")})
		}
		return done(Tuple{n, Iface{}})
	}
	I["(*zzMemReader).Pos"] = func(m *Machine, fr *Frame, a []Value, call ssa.Instruction, d bool) (Value, int) {
		return done(models[a[0].(Ptr).L].pos)
	}
	I["(*zzMemReader).Requested"] = func(m *Machine, fr *Frame, a []Value, call ssa.Instruction, d bool) (Value, int) {
		return done(models[a[0].(Ptr).L].reqs)
	}
	I["(*zzMemReader).Len"] = func(m *Machine, fr *Frame, a []Value, call ssa.Instruction, d bool) (Value, int) {
		return done(models[a[0].(Ptr).L].L)
	}
	I["zzAllocated"] = func(m *Machine, fr *Frame, a []Value, call ssa.Instruction, d bool) (Value, int) {
		return done(m.allocated)
	}
	I["zzStdout"] = func(m *Machine, fr *Frame, a []Value, call ssa.Instruction, d bool) (Value, int) {
		return done(BV(64, uint64(m.stdoutWrites)))
	}
	I["zzExpectSilent"] = func(m *Machine, fr *Frame, a []Value, call ssa.Instruction, d bool) (Value, int) {
		old := m.stdoutIsFinding
		m.stdoutIsFinding = true
		m.trail = append(m.trail, func() { m.stdoutIsFinding = old })
		return done(nil)
	}
	I["zzPoolHavoc"] = func(m *Machine, fr *Frame, a []Value, call ssa.Instruction, d bool) (Value, int) {
		old := m.poolHavoc
		m.poolHavoc = true
		m.trail = append(m.trail, func() { m.poolHavoc = old })
		return done(nil)
	}
	I["zzLogLevel"] = func(m *Machine, fr *Frame, a []Value, call ssa.Instruction, d bool) (Value, int) {
		panic(unsupported{"zzLogLevel: set the level through the real zerolog API in the harness"})
	}
	I["zzRun"] = func(m *Machine, fr *Frame, a []Value, call ssa.Instruction, d bool) (Value, int) {
		panic(unsupported{"zzRun is native-only"})
	}
	I["(*sync.Pool).Get"] = func(m *Machine, fr *Frame, a []Value, call ssa.Instruction, d bool) (Value, int) {
		p := a[0].(Ptr).L
		// an object put back earlier is handed out again (what sync.Pool does in a single goroutine without GC)
		if st := m.poolStore[p]; len(st) > 0 {
			obj := st[len(st)-1]
			m.poolStore[p] = st[:len(st)-1]
			m.trail = append(m.trail, func() { m.poolStore[p] = append(m.poolStore[p], obj) })
			if m.poolHavoc {
				m.havocValue(obj)
			}
			return done(obj)
		}
		st := p.typ.Underlying().(*types.Struct)
		for i := 0; i < st.NumFields(); i++ {
			if st.Field(i).Name() == "New" {
				nf := m.load(p.sub[i]).(Func)
				if nf.Fn == nil {
					return done(Iface{})
				}
				if m.poolHavoc {
					m.callWithAfter(nf, nil, call, d, func(m *Machine, r Value) Value { m.havocValue(r); return r })
					return nil, 2
				}
				m.callValue(nf, nil, call, d)
				return nil, 2
			}
		}
		panic("sync.Pool.New not found")
	}
	I["(*sync.Pool).Put"] = func(m *Machine, fr *Frame, a []Value, call ssa.Instruction, d bool) (Value, int) {
		p := a[0].(Ptr).L
		if iv, ok := a[1].(Iface); ok && iv.T != nil {
			m.poolStore[p] = append(m.poolStore[p], a[1])
			m.trail = append(m.trail, func() { m.poolStore[p] = m.poolStore[p][:len(m.poolStore[p])-1] })
		}
		return done(nil)
	}
	for _, n := range []string{"Lock", "Unlock", "RLock", "RUnlock"} {
		I["(*sync.RWMutex)."+n] = func(m *Machine, fr *Frame, a []Value, call ssa.Instruction, d bool) (Value, int) { return done(nil) }
		I["(*sync.Mutex)."+n] = func(m *Machine, fr *Frame, a []Value, call ssa.Instruction, d bool) (Value, int) { return done(nil) }
	}
	I["bytes.Equal"] = func(m *Machine, fr *Frame, a []Value, call ssa.Instruction, d bool) (Value, int) {
		x, y := a[0].(Slice), a[1].(Slice)
		if !m.decide(Eq(x.Len, y.Len)) {
			return done(BoolC(false))
		}
		n := int(m.conc(x.Len, 4096))
		r := BoolC(true)
		for k := 0; k < n; k++ {
			kk := BV(64, uint64(k))
			r = And(r, Eq(x.BA.Read(Bin("bvadd", x.Off, kk)), y.BA.Read(Bin("bvadd", y.Off, kk))))
		}
		return done(r)
	}
	I["bytes.IndexByte"] = func(m *Machine, fr *Frame, a []Value, call ssa.Instruction, d bool) (Value, int) {
		s := a[0].(Slice)
		c := a[1].(*T)
		n := int(m.conc(s.Len, 8192))
		for k := 0; k < n; k++ {
			if m.decide(Eq(s.BA.Read(Bin("bvadd", s.Off, BV(64, uint64(k)))), c)) {
				return done(BV(64, uint64(k)))
			}
		}
		return done(BV(64, ^uint64(0)))
	}
	I["strings.ToLower"] = func(m *Machine, fr *Frame, a []Value, call ssa.Instruction, d bool) (Value, int) {
		s := a[0].(Str)
		r := Str{B: make([]*T, len(s.B))}
		for i, b := range s.B {
			isUp := And(Cmp("bvule", BV(8, 'A'), b), Cmp("bvule", b, BV(8, 'Z')))
			r.B[i] = Ite(isUp, Bin("bvadd", b, BV(8, 32)), b)
			// bytes >= 0x80 take the unicode path in the real function; they are left unchanged here (stated assumption)
		}
		return done(r)
	}
	I["zzSameZone"] = func(m *Machine, fr *Frame, a []Value, call ssa.Instruction, d bool) (Value, int) {
		x, y := a[0].(Ptr), a[1].(Ptr)
		if x.Nil || y.Nil {
			return done(BoolC(x.Nil && y.Nil))
		}
		if x.L != nil && y.L != nil && x.L.opaqueID != nil && y.L.opaqueID != nil {
			return done(Eq(x.L.opaqueID, y.L.opaqueID))
		}
		return done(BoolC(x == y))
	}
	I["zzF32s"] = func(m *Machine, fr *Frame, a []Value, call ssa.Instruction, d bool) (Value, int) {
		name := goString(a[0])
		n := int(a[1].(*T).C)
		fn := call.(*ssa.Call).Call.StaticCallee()
		et := fn.Signature.Results().At(0).Type().Underlying().(*types.Slice).Elem()
		al := newLoc(types.NewArray(et, int64(n)))
		for i := 0; i < n; i++ {
			v := Var(fmt.Sprintf("%s_%d", name, i), 32)
			if n <= 256 {
				m.addInput(v)
				m.sol.Assert(Not(floatIsNaN(32, v))) // NaN patterns are excluded (the native library replaces them)
			}
			al.sub[i].v = v
		}
		ln := BV(64, uint64(n))
		return done(Slice{AL: al, Off: BV(64, 0), Len: ln, Cap: ln})
	}
	// zzDCTII(in, out, eps): for every real vector x the kernel output (terms in out, inputs in in) is within
	// eps*||x||_1 of the unscaled DCT-II: decided by an LRA query per output (lin.go)
	I["zzDCTII32"] = func(m *Machine, fr *Frame, a []Value, call ssa.Instruction, d bool) (Value, int) {
		in, out := a[0].(Slice), a[1].(Slice)
		eps := math.Float64frombits(a[2].(*T).C)
		epsRound := math.Float64frombits(a[3].(*T).C)
		n := int(in.Len.C)
		if !in.Len.IsC || !out.Len.IsC || int(out.Len.C) != n || in.AL == nil || out.AL == nil {
			panic(unsupported{"zzDCTII: concrete equal lengths expected"})
		}
		w := 32
		if strings.HasSuffix(call.(*ssa.Call).Call.StaticCallee().Name(), "64") {
			w = 64
		}
		it, ot := make([]*T, n), make([]*T, n)
		for i := 0; i < n; i++ {
			it[i] = m.load(in.AL.sub[int(in.Off.C)+i]).(*T)
			ot[i] = m.load(out.AL.sub[int(out.Off.C)+i]).(*T)
		}
		allC := true
		for i := 0; i < n; i++ {
			allC = allC && it[i].IsC && ot[i].IsC
		}
		if allC { // concrete vectors: the comparison itself, as the native harness library does it
			fv := func(t *T) float64 {
				if w == 32 {
					return float64(math.Float32frombits(uint32(t.C)))
				}
				return math.Float64frombits(t.C)
			}
			var l1 float64
			for i := 0; i < n; i++ {
				l1 += math.Abs(fv(it[i]))
			}
			for k := 0; k < n; k++ {
				var s float64
				for j := 0; j < n; j++ {
					s += fv(it[j]) * math.Cos(math.Pi*float64(2*j+1)*float64(k)/float64(2*n))
				}
				if math.Abs(fv(ot[k])-s) > (eps+epsRound)*l1 {
					return done(BoolC(false))
				}
			}
			return done(BoolC(true))
		}
		v, err := m.dctAgree(it, ot, w, eps, epsRound)
		if err != nil {
			panic(unsupported{"zzDCTII: " + err.Error()})
		}
		m.lraNotes = append(m.lraNotes, fmt.Sprintf("%s n=%d: %d float operations read as exact rational linear forms; rounding-error bound max_k E_k = %.3g (per unit of ||x||_1); largest |coefficient - cos| = %.3g; eps = %.3g, rounding budget %.3g; LRA queries so far %d (unsat %d, sat %d, unknown %d, %.2fs)",
			call.Parent().Name(), n, v.ops, v.maxErr, v.maxCoefD, eps, epsRound, m.lra.Queries, m.lra.Unsat, m.lra.Sat, m.lra.Unknown, m.lra.Time.Seconds()))
		if v.unknown {
			panic(unsupported{"zzDCTII: " + v.note})
		}
		if v.ok {
			return done(BoolC(true))
		}
		m.lraNotes = append(m.lraNotes, "counterexample: "+v.note)
		fmt.Fprintln(os.Stderr, "zzDCTII counterexample:", v.note)
		// bind the witness (rounded to the float type) into the path so that the replay sees it
		for i := 0; i < n; i++ {
			f, _ := v.witness[i].Float64()
			var bits uint64
			if w == 32 {
				bits = uint64(math.Float32bits(float32(f)))
			} else {
				bits = math.Float64bits(f)
			}
			m.sol.Assert(Eq(it[i], BV(w, bits)))
		}
		return done(BoolC(false))
	}
	I["zzDCTII64"] = I["zzDCTII32"]
	I["zzF64s"] = func(m *Machine, fr *Frame, a []Value, call ssa.Instruction, d bool) (Value, int) {
		name := goString(a[0])
		n := int(a[1].(*T).C)
		fn := call.(*ssa.Call).Call.StaticCallee()
		et := fn.Signature.Results().At(0).Type().Underlying().(*types.Slice).Elem()
		al := newLoc(types.NewArray(et, int64(n)))
		for i := 0; i < n; i++ {
			v := Var(fmt.Sprintf("%s_%d", name, i), 64)
			if n <= 256 {
				m.addInput(v)
				m.sol.Assert(Not(floatIsNaN(64, v))) // NaN patterns are excluded (the native library replaces them)
			}
			al.sub[i].v = v
		}
		ln := BV(64, uint64(n))
		return done(Slice{AL: al, Off: BV(64, 0), Len: ln, Cap: ln})
	}
	// zzGuardAllocF32(n): a zeroed []float32 (native: placed so that it ends at an inaccessible page)
	I["zzGuardAllocF32"] = func(m *Machine, fr *Frame, a []Value, call ssa.Instruction, d bool) (Value, int) {
		n := int(a[0].(*T).C)
		fn := call.(*ssa.Call).Call.StaticCallee()
		et := fn.Signature.Results().At(0).Type().Underlying().(*types.Slice).Elem()
		al := newLoc(types.NewArray(et, int64(n)))
		for i := 0; i < n; i++ {
			al.sub[i].v = BV(32, 0)
		}
		ln := BV(64, uint64(n))
		return done(Slice{AL: al, Off: BV(64, 0), Len: ln, Cap: ln})
	}
	// zzB2I(b): 1 if b else 0, without a fork
	I["zzB2I"] = func(m *Machine, fr *Frame, a []Value, call ssa.Instruction, d bool) (Value, int) {
		return done(Ite(a[0].(*T), BV(64, 1), BV(64, 0)))
	}
	// zzSameTerm(a, b): the two floats are the same term (same operations on the same inputs); native: same bits
	I["zzSameTerm"] = func(m *Machine, fr *Frame, a []Value, call ssa.Instruction, d bool) (Value, int) {
		return done(BoolC(a[0].(*T) == a[1].(*T)))
	}
	// zzSameTime(a, b): the two time.Time values are the same terms (the same uninterpreted constructor applied to the
	// same arguments); native: a.Equal(b)
	I["zzSameTime"] = func(m *Machine, fr *Frame, a []Value, call ssa.Instruction, d bool) (Value, int) {
		var same func(x, y Value) bool
		same = func(x, y Value) bool {
			switch p := x.(type) {
			case *T:
				q, ok := y.(*T)
				return ok && p == q
			case Struct:
				q, ok := y.(Struct)
				if !ok || len(p.F) != len(q.F) {
					return false
				}
				for i := range p.F {
					if !same(p.F[i], q.F[i]) {
						return false
					}
				}
				return true
			case Ptr:
				q, ok := y.(Ptr)
				return ok && p.L == q.L && p.Nil == q.Nil
			case nil:
				return y == nil
			}
			return false
		}
		return done(BoolC(same(a[0], a[1])))
	}
	I["zzIgnoreZeroSign"] = func(m *Machine, fr *Frame, a []Value, call ssa.Instruction, d bool) (Value, int) {
		old := fpIgnoreZeroSign
		fpIgnoreZeroSign = true
		m.trail = append(m.trail, func() { fpIgnoreZeroSign = old })
		return done(nil)
	}
	I["zzDiff"] = func(m *Machine, fr *Frame, a []Value, call ssa.Instruction, d bool) (Value, int) {
		var walk func(x, y *T, path string) bool
		walk = func(x, y *T, path string) bool {
			if x == y {
				return false
			}
			if x.Op != y.Op || x.Name != y.Name || len(x.Args) != len(y.Args) || x.IsC || y.IsC {
				fmt.Fprintf(os.Stderr, "DIFF at %s:\n   %s\n   %s\n", path, termStr(x, 4), termStr(y, 4))
				return true
			}
			for i := range x.Args {
				if walk(x.Args[i], y.Args[i], path+fmt.Sprint(i)) {
					return true
				}
			}
			return false
		}
		walk(a[0].(*T), a[1].(*T), "")
		return done(nil)
	}
	I["zzDump"] = func(m *Machine, fr *Frame, a []Value, call ssa.Instruction, d bool) (Value, int) {
		fmt.Fprintf(os.Stderr, "DUMP %s = %s\n", goString(a[0]), termStr(a[1].(*T), 12))
		return done(nil)
	}
	I["zzF32bits"] = func(m *Machine, fr *Frame, a []Value, call ssa.Instruction, d bool) (Value, int) { return done(a[0]) }
	I["zzF64bits"] = func(m *Machine, fr *Frame, a []Value, call ssa.Instruction, d bool) (Value, int) { return done(a[0]) }
	ident := func(m *Machine, fr *Frame, a []Value, call ssa.Instruction, d bool) (Value, int) { return done(a[0]) }
	I["internal/stringslite.Clone"] = ident
	I["strings.Clone"] = ident
	I["strconv.cloneString"] = ident
	I["github.com/tinylib/msgp/msgp.UnsafeString"] = func(m *Machine, fr *Frame, a []Value, call ssa.Instruction, d bool) (Value, int) {
		s := a[0].(Slice)
		n := int(m.conc(s.Len, 4096))
		r := Str{B: make([]*T, n)}
		for i := 0; i < n; i++ {
			r.B[i] = s.BA.Read(Bin("bvadd", s.Off, BV(64, uint64(i))))
		}
		return done(r)
	}
	I["github.com/tinylib/msgp/msgp.UnsafeBytes"] = func(m *Machine, fr *Frame, a []Value, call ssa.Instruction, d bool) (Value, int) {
		s := a[0].(Str)
		ba := newZeroBA(len(s.B))
		for i, b := range s.B {
			m.baStore(ba, BV(64, uint64(i)), b)
		}
		n := BV(64, uint64(len(s.B)))
		return done(Slice{BA: ba, Off: BV(64, 0), Len: n, Cap: n})
	}
	// zzConc(x, max): case split over every feasible value of x (harness-controlled concretisation)
	I["zzConc"] = func(m *Machine, fr *Frame, a []Value, call ssa.Instruction, d bool) (Value, int) {
		t := a[0].(*T)
		mx := int(a[1].(*T).C)
		return done(BV(t.W, m.conc(t, mx)))
	}
	I["runtime.KeepAlive"] = func(m *Machine, fr *Frame, a []Value, call ssa.Instruction, d bool) (Value, int) { return done(nil) }
}

// appendBytes appends symbolic bytes to a byte slice (used by stubs).
func (m *Machine) appendBytes(s Slice, bs []*T) Value {
	st := Str{B: bs}
	return m.appendValue(s, st, true)
}

func termStr(t *T, depth int) string {
	if t.IsC {
		if t.W == 32 {
			return fmt.Sprintf("%g", math.Float32frombits(uint32(t.C)))
		}
		return fmt.Sprintf("#%x", t.C)
	}
	if t.Op == "var" {
		return t.Name
	}
	if depth == 0 {
		return "..."
	}
	s := "(" + t.Op
	if t.Op == "app" {
		s = "(" + t.Name
	}
	for _, a := range t.Args {
		s += " " + termStr(a, depth-1)
	}
	return s + ")"
}
