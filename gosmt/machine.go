package main

import (
	"time"
	"fmt"
	"go/constant"
	"go/token"
	"go/types"
	"math"
	"os"
	"sort"
	"strings"

	"golang.org/x/tools/go/ssa"
)

type deferred struct {
	fn   Value
	args []Value
}

type Frame struct {
	fn      *ssa.Function
	block   *ssa.BasicBlock
	prev    *ssa.BasicBlock
	pc      int
	regs    map[ssa.Value]Value
	defers  []deferred
	call    ssa.Instruction // call instruction in the caller awaiting the result (nil: result dropped)
	isDefer bool            // this frame runs a deferred call of the frame below
	collect *collector      // pure-call result collector
	after   func(m *Machine, r Value) Value // result transformer (stub callbacks, pool havoc)
	afterCall ssa.Instruction
	afterDefer bool
	running bool            // (on the deferring frame) defers are being run because of a panic
}

type panicState struct {
	val     Value
	runtime bool
	msg     string
	where   string // function + file:line where it was raised
	site    string // function :: source text of the line (stable key)
	stack   []string
	fns     []string
}

type Finding struct {
	Kind  string            `json:"kind"`
	Where string            `json:"where"`
	Site  string            `json:"site"`
	Msg   string            `json:"msg"`
	Stack []string          `json:"stack,omitempty"`
	Fns   []string          `json:"fns,omitempty"` // functions the panic may be attributed to (raising function, merged callees)
	Model map[string]uint64 `json:"model,omitempty"`
	NoModel bool            `json:"no_model,omitempty"`
}

type Machine struct {
	prog     *ssa.Program
	sol      *Solver
	trail    []func()
	stack    []*Frame
	globals  map[*ssa.Global]*Loc
	assumed  map[*T]bool
	concs    map[*T]uint64
	pan      *panicState
	halted   bool
	result   Value
	Paths    int
	Steps    int
	Forks    int
	findings map[string]*Finding
	findingOrder []string
	intr     map[string]func(m *Machine, fr *Frame, args []Value, call ssa.Instruction, isDefer bool) (Value, int)
	inputs   []*T // symbolic inputs for model dumps
	onEnd    func(m *Machine)
	maxSteps int
	pathStep int
	curPos   token.Pos
	opaque   map[string]Iface
	errType  types.Type
	trace    bool
	decisions []*T
	PureCalls int
	noPure   bool
	tier, part   int
	allocated    *T
	stdoutWrites int
	stdoutIsFinding bool
	logEvents, logWrites int
	poolHavoc    bool
	stubsUsed    map[string]int
	assertsSeen  map[string]int
	fnsEncoded   map[*ssa.Function]bool
	samples      []map[string]uint64
	sampleMax    int
	havocSeq     int
	deadline     time.Time
	maxPaths     int
	aborted      string
	fullPaths    int
	opaqueLocs   map[string]*Loc
	pendingFns   []string
	poolStore    map[*Loc][]Value
	lra          *lraSolver
	lraNotes     []string
	asmNotes     []string
	asmAccesses  int
	asmSteps     int
	noShortCircuit bool
}

type forkReq struct{ c *T }
type concReq struct {
	t   *T
	max int
}
type pathEnd struct{ why string }
type unsupported struct{ msg string }

func NewMachine(prog *ssa.Program) *Machine {
	m := &Machine{prog: prog, sol: NewSolver(), globals: map[*ssa.Global]*Loc{}, assumed: map[*T]bool{}, concs: map[*T]uint64{},
		poolStore: map[*Loc][]Value{}, opaqueLocs: map[string]*Loc{}, stubsUsed: map[string]int{}, assertsSeen: map[string]int{}, fnsEncoded: map[*ssa.Function]bool{}, allocated: BV(64, 0), findings: map[string]*Finding{}, intr: map[string]func(*Machine, *Frame, []Value, ssa.Instruction, bool) (Value, int){}, maxSteps: 60000, opaque: map[string]Iface{}}
	registerIntrinsics(m)
	return m
}

func (m *Machine) undo(mark int) {
	for i := len(m.trail) - 1; i >= mark; i-- {
		m.trail[i]()
	}
	m.trail = m.trail[:mark]
}

func (m *Machine) top() *Frame { return m.stack[len(m.stack)-1] }

func (m *Machine) pushFrame(f *Frame) {
	m.stack = append(m.stack, f)
	m.trail = append(m.trail, func() { m.stack = m.stack[:len(m.stack)-1] })
}
func (m *Machine) popFrame() {
	f := m.top()
	m.stack = m.stack[:len(m.stack)-1]
	m.trail = append(m.trail, func() { m.stack = append(m.stack, f) })
}
func (m *Machine) setReg(fr *Frame, k ssa.Value, v Value) {
	old, had := fr.regs[k]
	fr.regs[k] = v
	m.trail = append(m.trail, func() {
		if had {
			fr.regs[k] = old
		} else {
			delete(fr.regs, k)
		}
	})
}
func (m *Machine) jump(fr *Frame, b *ssa.BasicBlock) {
	ob, op, opc := fr.block, fr.prev, fr.pc
	fr.prev, fr.block, fr.pc = fr.block, b, 0
	m.trail = append(m.trail, func() { fr.block, fr.prev, fr.pc = ob, op, opc })
}
func (m *Machine) jumpFrom(fr *Frame, pred, b *ssa.BasicBlock) {
	ob, op, opc := fr.block, fr.prev, fr.pc
	fr.prev, fr.block, fr.pc = pred, b, 0
	m.trail = append(m.trail, func() { fr.block, fr.prev, fr.pc = ob, op, opc })
}

func hasPhi(b *ssa.BasicBlock) bool {
	if len(b.Instrs) == 0 {
		return false
	}
	_, ok := b.Instrs[0].(*ssa.Phi)
	return ok
}

// specBlock speculatively evaluates block b when it consists of side-effect-free instructions followed by an If
// and has a single predecessor; returns the If's condition. Any fork, run-time check or unsupported construct
// aborts the speculation (state restored).
func (m *Machine) specBlock(fr *Frame, b *ssa.BasicBlock) (cond *T, ok bool) {
	if len(b.Preds) != 1 || len(b.Instrs) == 0 || len(b.Instrs) > 12 {
		return nil, false
	}
	last, isIf := b.Instrs[len(b.Instrs)-1].(*ssa.If)
	if !isIf {
		return nil, false
	}
	for _, in := range b.Instrs[:len(b.Instrs)-1] {
		switch x := in.(type) {
		case *ssa.BinOp, *ssa.IndexAddr, *ssa.Index, *ssa.Field, *ssa.FieldAddr, *ssa.Convert, *ssa.ChangeType, *ssa.Extract, *ssa.Slice, *ssa.DebugRef:
		case *ssa.UnOp:
			if x.Op == token.ARROW {
				return nil, false
			}
		case *ssa.Call:
			bi, isB := x.Call.Value.(*ssa.Builtin)
			if !isB || (bi.Name() != "len" && bi.Name() != "cap") {
				return nil, false
			}
		default:
			return nil, false
		}
	}
	mark := len(m.trail)
	savedPos := m.curPos
	defer func() {
		if r := recover(); r != nil {
			switch r.(type) {
			case forkReq, concReq, raised, unsupported, unmergeable, pathEnd:
				m.undo(mark)
				m.curPos = savedPos
				cond, ok = nil, false
			default:
				panic(r)
			}
		}
	}()
	ob, op, opc := fr.block, fr.prev, fr.pc
	fr.prev, fr.block, fr.pc = fr.block, b, 0
	m.trail = append(m.trail, func() { fr.block, fr.prev, fr.pc = ob, op, opc })
	for fr.pc < len(b.Instrs)-1 {
		m.step()
	}
	cv := m.get(fr, last.Cond).(*T)
	// leave the registers set (SSA values of b are only used in blocks b dominates); restore the position
	fr.block, fr.prev, fr.pc = ob, op, opc
	m.curPos = savedPos
	return cv, true
}

func (m *Machine) advance(fr *Frame) {
	fr.pc++
	m.trail = append(m.trail, func() { fr.pc-- })
}
func (m *Machine) setAssumed(c *T, v bool) {
	if c.Op == "not" {
		m.setAssumed(c.Args[0], !v)
		return
	}
	old, had := m.assumed[c]
	m.assumed[c] = v
	m.trail = append(m.trail, func() {
		if had {
			m.assumed[c] = old
		} else {
			delete(m.assumed, c)
		}
	})
}
func (m *Machine) setPanic(p *panicState) {
	old := m.pan
	m.pan = p
	m.trail = append(m.trail, func() { m.pan = old })
}

// decide returns the truth value of c on the current path, forking if necessary.
func (m *Machine) decide(c *T) bool {
	if c.IsC {
		return c.C == 1
	}
	if c.Op == "not" {
		return !m.decide(c.Args[0])
	}
	if v, ok := m.assumed[c]; ok {
		return v
	}
	panic(forkReq{c})
}

// conc returns a concrete value for t on the current path, forking over feasible values.
func (m *Machine) conc(t *T, max int) uint64 {
	if t.IsC {
		return t.C
	}
	if v, ok := m.concs[t]; ok {
		return v
	}
	panic(concReq{t, max})
}

func (m *Machine) check(ok *T, msg string) {
	if !m.decide(ok) {
		m.raiseRuntime(msg)
	}
}

type raised struct{}

func (m *Machine) raiseRuntime(msg string) {
	m.setPanic(&panicState{runtime: true, msg: msg, val: m.opaqueErr("runtime.Error"), where: m.where(), site: m.site(), stack: m.stackNames(), fns: m.pendingFns})
	m.pendingFns = nil
	panic(raised{})
}
func (m *Machine) raiseValue(v Value) {
	m.setPanic(&panicState{val: v, msg: "explicit panic", where: m.where(), site: m.site(), stack: m.stackNames()})
	panic(raised{})
}

// entryRepoFn is the outermost non-harness repository function on the stack (the API entry the harness called).
func (m *Machine) entryRepoFn() string {
	for _, fr := range m.stack {
		if isRepoPkg(fr.fn.Pkg) && !strings.Contains(fr.fn.Name(), "zz") {
			return fr.fn.String()
		}
		if fr.fn.Pkg == nil && fr.fn.Parent() != nil && isRepoPkg(fr.fn.Parent().Pkg) && !strings.Contains(fr.fn.Parent().Name(), "zz") {
			return fr.fn.Parent().String()
		}
	}
	return "?"
}

func (m *Machine) stackNames() []string {
	var r []string
	for i := len(m.stack) - 1; i >= 0 && len(r) < 8; i-- {
		r = append(r, m.stack[i].fn.String())
	}
	return r
}

// site is a line-number-free key of the current instruction: function :: trimmed source text.
func (m *Machine) site() string {
	if len(m.stack) == 0 {
		return "?"
	}
	fr := m.top()
	pos := m.prog.Fset.Position(m.curPos)
	return fr.fn.String() + " :: " + srcLine(pos.Filename, pos.Line)
}

func (m *Machine) where() string {
	if len(m.stack) == 0 {
		return "?"
	}
	fr := m.top()
	pos := m.prog.Fset.Position(m.curPos)
	return fmt.Sprintf("%s @%s:%d", fr.fn.String(), shortFile(pos.Filename), pos.Line)
}
func shortFile(f string) string {
	if i := strings.Index(f, "/repo/"); i >= 0 {
		return f[i+6:]
	}
	if i := strings.LastIndex(f, "/src/"); i >= 0 {
		return f[i+5:]
	}
	return f
}

func (m *Machine) report(kind, where, msg string) {
	m.reportSite(kind, where, where, msg, nil)
}

func (m *Machine) reportSite(kind, where, site, msg string, stack []string) {
	key := kind + "|" + site + "|" + msg
	if _, ok := m.findings[key]; ok {
		return
	}
	f := &Finding{Kind: kind, Where: where, Site: site, Msg: msg, Stack: stack, Model: map[string]uint64{}}
	m.findingOrder = append(m.findingOrder, key)
	m.findings[key] = f
	if kind == "unsupported" || kind == "bound" {
		f.NoModel = true
		return
	}
	if mo := m.modelNow(); mo != nil {
		f.Model = mo
	} else {
		f.NoModel = true
	}
}

// modelNow returns a model of the current path condition over all declared inputs (nil if none).
func (m *Machine) modelNow() map[string]uint64 {
	type nin struct {
		name string
		t    *T
	}
	var ins []nin
	for _, in := range m.inputs {
		ins = append(ins, nin{in.Name, in})
	}
	for _, st := range streams {
		for i := 0; i < st.max; i++ {
			ins = append(ins, nin{fmt.Sprintf("%s_%d", st.name, i), st.data.Read(BV(64, uint64(i)))})
		}
	}
	m.sol.Push()
	defer m.sol.Pop()
	bound := make([]*T, len(ins))
	for i, in := range ins {
		bound[i] = m.sol.Bind(in.t)
	}
	if m.sol.Check() != "sat" {
		return nil
	}
	mo := map[string]uint64{}
	for i, in := range ins {
		mo[in.name] = m.sol.Value(bound[i])
	}
	return mo
}

// Explore runs all paths from the current machine state and restores the state afterwards.
func (m *Machine) Explore() {
	for {
		if m.aborted != "" {
			return
		}
		ev := m.runUntilEvent()
		switch e := ev.(type) {
		case pathEnd:
			m.Paths++
			if m.Paths%500 == 0 && os.Getenv("VERIF_PROGRESS") != "" {
				fmt.Fprintf(os.Stderr, "  .. paths=%d steps=%d queries=%d solver=%.1fs terms=%d\n", m.Paths, m.Steps, m.sol.Queries, m.sol.Time.Seconds(), termSeq)
			}
			if e.why == "return" && len(m.stack) == 0 {
				m.fullPaths++
				// log-spaced sampling of completed paths for native validation
				if len(m.samples) < m.sampleMax && m.fullPaths&(m.fullPaths-1) == 0 {
					if mo := m.modelNow(); mo != nil {
						m.samples = append(m.samples, mo)
					}
				}
			}
			if m.onEnd != nil && e.why == "return" {
				m.onEnd(m)
			}
			if !m.deadline.IsZero() && m.Paths%16 == 0 && time.Now().After(m.deadline) {
				m.aborted = "time limit reached"
			}
			if m.maxPaths > 0 && m.Paths >= m.maxPaths {
				m.aborted = "path limit reached"
			}
			return
		case forkReq:
			c := e.c
			ft := m.sol.CheckWith(c) != "unsat"
			ff := m.sol.CheckWith(Not(c)) != "unsat"
			switch {
			case ft && ff:
				m.Forks++
				for _, bv := range []bool{true, false} {
					mark := len(m.trail)
					m.sol.Push()
					if bv {
						m.sol.Assert(c)
					} else {
						m.sol.Assert(Not(c))
					}
					m.setAssumed(c, bv)
					if bv {
						m.pushDecision(c)
					} else {
						m.pushDecision(Not(c))
					}
					ps := m.pathStep
					m.Explore()
					m.pathStep = ps
					m.undo(mark)
					m.sol.Pop()
				}
				return
			case ft:
				m.setAssumed(c, true)
			case ff:
				m.setAssumed(c, false)
			default:
				m.Paths++
				return // infeasible path
			}
		case concReq:
			// enumerate feasible values
			var vals []uint64
			m.sol.Push()
			gv := m.sol.Bind(e.t)
			for len(vals) <= e.max {
				if m.sol.Check() != "sat" {
					break
				}
				v := m.sol.Value(gv)
				vals = append(vals, v)
				m.sol.Assert(Not(Eq(gv, BV(e.t.W, v))))
			}
			m.sol.Pop()
			if len(vals) > e.max {
				m.report("bound", m.where(), fmt.Sprintf("concretisation of %d-bit term exceeds %d values", e.t.W, e.max))
				vals = vals[:e.max]
			}
			sort.Slice(vals, func(i, j int) bool { return vals[i] < vals[j] })
			for _, v := range vals {
				mark := len(m.trail)
				m.sol.Push()
				m.sol.Assert(Eq(e.t, BV(e.t.W, v)))
				m.pushDecision(Eq(e.t, BV(e.t.W, v)))
				t := e.t
				old, had := m.concs[t]
				m.concs[t] = v
				m.trail = append(m.trail, func() {
					if had {
						m.concs[t] = old
					} else {
						delete(m.concs, t)
					}
				})
				ps := m.pathStep
				m.Explore()
				m.pathStep = ps
				m.undo(mark)
				m.sol.Pop()
			}
			return
		}
	}
}

func (m *Machine) runUntilEvent() (ev interface{}) {
	defer func() {
		if r := recover(); r != nil {
			switch x := r.(type) {
			case forkReq, concReq, pathEnd:
				ev = x
			case unsupported:
				m.report("unsupported", m.where(), x.msg)
				ev = pathEnd{"unsupported"}
			case unmergeable:
				m.report("unsupported", m.where(), "unmergeable ite")
				ev = pathEnd{"unsupported"}
			default:
				fmt.Fprintf(os.Stderr, "INTERNAL at %s: %v\n", m.where(), r)
				panic(r)
			}
		}
	}()
	for {
		if m.halted || len(m.stack) == 0 {
			return pathEnd{"return"}
		}
		m.pathStep++
		m.Steps++
		if m.pathStep > m.maxSteps {
			m.reportSite("unwind", m.where(), "unwind: "+m.entryRepoFn(), "step budget exceeded", m.stackNames())
			return pathEnd{"budget"}
		}
		m.stepCatch()
	}
}

func (m *Machine) stepCatch() {
	defer func() {
		if r := recover(); r != nil {
			if _, ok := r.(raised); ok {
				m.unwind()
				return
			}
			panic(r)
		}
	}()
	m.step()
}

// unwind handles a pending panic: run defers of the top frame, else pop it.
func (m *Machine) unwind() {
	for {
		if len(m.stack) == 0 {
			m.reportSite("panic", m.pan.where, m.pan.site, m.pan.msg, m.pan.stack)
			if f := m.findings["panic|"+m.pan.site+"|"+m.pan.msg]; f != nil && len(f.Fns) == 0 {
				f.Fns = append(m.pan.fns, m.pan.stack...)
			}
			panic(pathEnd{"panic"})
		}
		fr := m.top()
		if n := len(fr.defers); n > 0 {
			d := fr.defers[n-1]
			m.setDefers(fr, fr.defers[:n-1])
			if !fr.running {
				fr.running = true
				m.trail = append(m.trail, func() { fr.running = false })
			}
			depth := len(m.stack)
			m.callValue(d.fn, d.args, nil, true)
			if len(m.stack) == depth {
				continue // the deferred call was an intrinsic that completed at once: keep unwinding
			}
			return
		}
		if fr.collect != nil {
			cond := BoolC(true)
			for _, d := range m.decisions[fr.collect.decBase:] {
				cond = And(cond, d)
			}
			fr.collect.outs = append(fr.collect.outs, outcome{cond: cond, pan: true, msg: m.pan.msg, fns: append(append([]string{}, m.pan.fns...), m.pan.stack...)})
			panic(pathEnd{"collected-panic"})
		}
		m.popFrame()
	}
}

func (m *Machine) setDefers(fr *Frame, d []deferred) {
	old := fr.defers
	fr.defers = d
	m.trail = append(m.trail, func() { fr.defers = old })
}

func (m *Machine) get(fr *Frame, v ssa.Value) Value {
	switch x := v.(type) {
	case *ssa.Const:
		return m.constValue(x)
	case *ssa.Global:
		return Ptr{L: m.globalLoc(x)}
	case *ssa.Function:
		return Func{Fn: x}
	case *ssa.Builtin:
		return Func{Name: x.Name()}
	}
	r, ok := fr.regs[v]
	if !ok {
		panic(fmt.Sprintf("no value for %s (%T) in %s", v.Name(), v, fr.fn))
	}
	return r
}

func (m *Machine) constValue(c *ssa.Const) Value {
	t := c.Type()
	if c.Value == nil {
		return zeroValue(t)
	}
	if w, _, ok := intWidth(t); ok {
		if i, exact := constant.Int64Val(constant.ToInt(c.Value)); exact {
			return BV(w, uint64(i))
		}
		u, _ := constant.Uint64Val(constant.ToInt(c.Value))
		return BV(w, u)
	}
	if w := floatWidth(t); w > 0 {
		f, _ := constant.Float64Val(c.Value)
		if w == 32 {
			f32, _ := constant.Float32Val(c.Value)
			return BV(32, uint64(math.Float32bits(f32)))
		}
		return BV(64, math.Float64bits(f))
	}
	switch c.Value.Kind() {
	case constant.Bool:
		return BoolC(constant.BoolVal(c.Value))
	case constant.String:
		s := constant.StringVal(c.Value)
		r := Str{B: make([]*T, len(s))}
		for i := 0; i < len(s); i++ {
			r.B[i] = BV(8, uint64(s[i]))
		}
		return r
	}
	panic("const " + c.String())
}

func (m *Machine) globalLoc(g *ssa.Global) *Loc {
	if l, ok := m.globals[g]; ok {
		return l
	}
	et := g.Type().(*types.Pointer).Elem()
	l := newLoc(et)
	// opaque sentinel for interface-typed globals of non-repo packages (errors etc.)
	if _, isIface := et.Underlying().(*types.Interface); isIface && !isRepoPkg(g.Pkg) {
		l.v = m.opaqueErr(g.Pkg.Pkg.Path() + "." + g.Name())
	}
	// pointer-typed globals of packages whose init is not executed (time.UTC, os.Stdout, ...): opaque non-nil objects
	if pt, isPtr := et.Underlying().(*types.Pointer); isPtr && !isRepoPkg(g.Pkg) && !initPkgs[g.Pkg.Pkg.Path()] {
		l.v = Ptr{L: &Loc{typ: pt.Elem(), v: BV(64, 0)}}
	}
	m.globals[g] = l
	// not trail-logged: lazily created globals persist (their contents are trail-logged)
	return l
}

func isRepoPkg(p *ssa.Package) bool {
	return p != nil && strings.HasPrefix(p.Pkg.Path(), "github.com/evanoberholster/imagemeta")
}

func (m *Machine) opaqueErr(name string) Iface {
	if v, ok := m.opaque[name]; ok {
		return v
	}
	if m.errType == nil {
		pkg := types.NewPackage("zz/opaque", "opaque")
		tn := types.NewTypeName(token.NoPos, pkg, "Err", nil)
		named := types.NewNamed(tn, types.NewStruct(nil, nil), nil)
		m.errType = types.NewPointer(named)
	}
	v := Iface{T: m.errType, V: Ptr{L: &Loc{typ: m.errType, v: Str{}}}}
	m.opaque[name] = v
	return v
}

func (m *Machine) callFunction(fn *ssa.Function, args []Value, call ssa.Instruction, isDefer bool) {
	if fn.Blocks == nil {
		if m.callAsm(fn, args, call, isDefer) {
			return
		}
		panic(unsupported{"external function " + fn.String()})
	}
	fr := &Frame{fn: fn, block: fn.Blocks[0], regs: make(map[ssa.Value]Value, 16), call: call, isDefer: isDefer}
	for i, p := range fn.Params {
		fr.regs[p] = args[i]
	}
	m.fnsEncoded[fn] = true
	m.pushFrame(fr)
}

// callWithAfter runs fn and passes its result through after before delivering it to call.
func (m *Machine) callWithAfter(fv Value, args []Value, call ssa.Instruction, isDefer bool, after func(m *Machine, r Value) Value) {
	f := fv.(Func)
	all := args
	if f.Recv != nil {
		all = append([]Value{f.Recv}, args...)
	}
	m.callFunction(f.Fn, all, nil, false)
	fr := m.top()
	for i, fvv := range f.Fn.FreeVars {
		fr.regs[fvv] = f.Free[i]
	}
	fr.after = after
	fr.afterCall = call
	fr.afterDefer = isDefer
}

// callValue invokes a function value. Returns true if the call completed immediately (intrinsic).
func (m *Machine) callValue(fv Value, args []Value, call ssa.Instruction, isDefer bool) {
	f := fv.(Func)
	if f.Fn == nil {
		panic(unsupported{"call of nil/builtin func value " + f.Name})
	}
	all := args
	if f.Recv != nil {
		all = append([]Value{f.Recv}, args...)
	}
	if len(f.Free) > 0 {
		m.callFunction(f.Fn, all, call, isDefer)
		fr := m.top()
		for i, fvv := range f.Fn.FreeVars {
			fr.regs[fvv] = f.Free[i]
		}
		return
	}
	if h := m.findIntr(f.Fn); h != nil {
		r, st := h(m, m.topOrNil(), all, call, isDefer)
		if st == 1 {
			m.finishCall(call, r, isDefer)
			return
		}
		if st == 2 {
			return
		}
	}
	if !m.noPure && !isDefer && call != nil && m.isPure(f.Fn) {
		if m.callPure(f.Fn, all, call) {
			return
		}
	}
	m.callFunction(f.Fn, all, call, isDefer)
}

func (m *Machine) topOrNil() *Frame {
	if len(m.stack) == 0 {
		return nil
	}
	return m.top()
}

// finishCall delivers the result of an immediately completed call to the current top frame.
func (m *Machine) finishCall(call ssa.Instruction, r Value, isDefer bool) {
	if isDefer {
		return // result dropped; caller (RunDefers / unwind) continues
	}
	fr := m.top()
	if v, ok := call.(ssa.Value); ok {
		m.setReg(fr, v, r)
	}
	m.advance(fr)
}

func (m *Machine) doReturn(fr *Frame, results []Value) {
	var r Value
	if len(results) == 1 {
		r = results[0]
	} else if len(results) > 1 {
		r = Tuple(results)
	}
	if fr.collect != nil {
		cond := BoolC(true)
		for _, d := range m.decisions[fr.collect.decBase:] {
			cond = And(cond, d)
		}
		fr.collect.outs = append(fr.collect.outs, outcome{cond: cond, val: r})
		panic(pathEnd{"collected"})
	}
	m.popFrame()
	if fr.after != nil {
		r = fr.after(m, r)
		if fr.afterDefer {
			// deferred intrinsic: behave like a returning deferred frame
			fr2 := *fr
			fr2.isDefer = true
			fr = &fr2
		} else {
			m.finishCall(fr.afterCall, r, false)
			return
		}
	}
	if len(m.stack) == 0 {
		m.result = r
		old := m.halted
		m.halted = true
		m.trail = append(m.trail, func() { m.halted = old })
		return
	}
	if fr.isDefer {
		caller := m.top()
		if m.pan != nil {
			// continue unwinding
			m.unwind()
			return
		}
		if caller.running {
			// panic was recovered by this deferred call: the deferring function returns via its Recover block
			caller.running = false
			m.trail = append(m.trail, func() { caller.running = true })
			if len(caller.defers) > 0 {
				// run remaining defers first (normal mode): emulate by RunDefers semantics
			}
			if caller.fn.Recover != nil {
				m.jump(caller, caller.fn.Recover)
				return
			}
			// no named results: return zero values
			var zs []Value
			res := caller.fn.Signature.Results()
			for i := 0; i < res.Len(); i++ {
				zs = append(zs, zeroValue(res.At(i).Type()))
			}
			m.doReturn(caller, zs)
			return
		}
		// normal RunDefers: stay on the RunDefers instruction (it will pop the next defer)
		return
	}
	caller := m.top()
	if v, ok := fr.call.(ssa.Value); ok && fr.call != nil {
		m.setReg(caller, v, r)
	}
	m.advance(caller)
}

func (m *Machine) step() {
	fr := m.top()
	in := fr.block.Instrs[fr.pc]
	if p := in.Pos(); p.IsValid() {
		m.curPos = p
	}
	if m.trace {
		fmt.Fprintf(os.Stderr, "%s%s | %s\n", strings.Repeat(" ", len(m.stack)), fr.fn.Name(), in)
	}
	switch x := in.(type) {
	case *ssa.Alloc:
		l := newLoc(x.Type().(*types.Pointer).Elem())
		if x.Heap {
			m.ghostAlloc(BV(64, uint64(sizeofType(x.Type().(*types.Pointer).Elem()))))
		}
		m.setReg(fr, x, Ptr{L: l})
	case *ssa.Phi:
		// evaluate all phis of the block simultaneously
		n := 0
		var vals []Value
		var phis []*ssa.Phi
		for _, pi := range fr.block.Instrs {
			ph, ok := pi.(*ssa.Phi)
			if !ok {
				break
			}
			idx := -1
			for i, p := range fr.block.Preds {
				if p == fr.prev {
					idx = i
				}
			}
			vals = append(vals, m.get(fr, ph.Edges[idx]))
			phis = append(phis, ph)
			n++
		}
		for i, ph := range phis {
			m.setReg(fr, ph, vals[i])
		}
		opc := fr.pc
		fr.pc += n
		m.trail = append(m.trail, func() { fr.pc = opc })
		return
	case *ssa.BinOp:
		m.setReg(fr, x, m.binop(x.Op, x.X.Type(), m.get(fr, x.X), m.get(fr, x.Y), x.Y.Type()))
	case *ssa.UnOp:
		m.setReg(fr, x, m.unop(x, m.get(fr, x.X)))
	case *ssa.ChangeType:
		m.setReg(fr, x, m.get(fr, x.X))
	case *ssa.ChangeInterface:
		m.setReg(fr, x, m.get(fr, x.X))
	case *ssa.Convert:
		m.setReg(fr, x, m.convert(x.X.Type(), x.Type(), m.get(fr, x.X)))
	case *ssa.MakeInterface:
		m.setReg(fr, x, Iface{T: x.X.Type(), V: m.get(fr, x.X)})
	case *ssa.Extract:
		m.setReg(fr, x, m.get(fr, x.Tuple).(Tuple)[x.Index])
	case *ssa.Field:
		m.setReg(fr, x, m.get(fr, x.X).(Struct).F[x.Field])
	case *ssa.FieldAddr:
		p := m.get(fr, x.X).(Ptr)
		if p.Nil {
			m.raiseRuntime("nil pointer dereference")
		}
		if p.L == nil {
			panic(unsupported{"FieldAddr on non-direct pointer"})
		}
		m.setReg(fr, x, Ptr{L: p.L.sub[x.Field]})
	case *ssa.IndexAddr:
		m.setReg(fr, x, m.indexAddr(m.get(fr, x.X), m.get(fr, x.Index).(*T), x.Index.Type()))
	case *ssa.Index:
		m.setReg(fr, x, m.indexValue(m.get(fr, x.X), m.get(fr, x.Index).(*T), x.Index.Type()))
	case *ssa.Slice:
		var lo, hi, mx *T
		if x.Low != nil {
			lo = m.to64(m.get(fr, x.Low).(*T), x.Low.Type())
		}
		if x.High != nil {
			hi = m.to64(m.get(fr, x.High).(*T), x.High.Type())
		}
		if x.Max != nil {
			mx = m.to64(m.get(fr, x.Max).(*T), x.Max.Type())
		}
		m.setReg(fr, x, m.sliceOp(m.get(fr, x.X), lo, hi, mx))
	case *ssa.Store:
		m.storePtr(m.get(fr, x.Addr).(Ptr), m.get(fr, x.Val))
	case *ssa.MakeSlice:
		ln := m.to64(m.get(fr, x.Len).(*T), x.Len.Type())
		cp := m.to64(m.get(fr, x.Cap).(*T), x.Cap.Type())
		et := x.Type().Underlying().(*types.Slice).Elem()
		esz := uint64(sizeofType(et))
		// Go panics on negative / oversized len and on len > cap
		m.check(Cmp("bvsle", BV(64, 0), ln), "makeslice: len out of range")
		m.check(Cmp("bvsle", ln, cp), "makeslice: cap out of range")
		if !cp.IsC {
			// a make() whose byte size can exceed 8 MiB is an allocation controlled by the input (C14: 4 MiB + 16*len)
			big := Cmp("bvult", BV(64, (8<<20)/esz), cp)
			if m.decide(big) {
				m.sol.Assert(Cmp("bvule", cp, BV(64, (128<<20)/esz)))
				if m.sol.Check() == "sat" {
					m.reportSite("alloc", m.where(), m.site(), "make() whose size (above 8 MiB) is controlled by the input", m.stackNames())
				}
				panic(pathEnd{"alloc"})
			}
		}
		if cp.IsC && cp.C > (8<<20)/esz && cp.C <= (1<<40)/esz {
			// a concrete make() above 8 MiB (the size was case split from an input field): the same finding
			m.reportSite("alloc", m.where(), m.site(), "make() whose size (above 8 MiB) is controlled by the input", m.stackNames())
			panic(pathEnd{"alloc"})
		}
		m.ghostAlloc(Bin("bvmul", cp, BV(64, esz)))
		s := Slice{Off: BV(64, 0), Len: ln, Cap: cp}
		if isByte(et) {
			if cp.IsC {
				s.BA = newZeroBA(int(cp.C))
			} else {
				s.BA = newZeroBA(0)
			}
		} else {
			// only the first elements of a large array are materialised (an access beyond them is reported as unsupported);
			// a symbolic capacity stays symbolic when the length is concrete
			mat := 1024
			if cp.IsC || !ln.IsC {
				n := int(m.conc(cp, 64))
				s.Cap = BV(64, uint64(n))
				mat = n
			} else if int(ln.C) > mat {
				mat = int(ln.C)
			}
			s.AL = newLoc(types.NewArray(et, int64(mat)))
		}
		m.setReg(fr, x, s)
	case *ssa.MakeMap:
		m.setReg(fr, x, MapV{M: &MapObj{kv: map[string]Value{}, kraw: map[string]Value{}, elem: x.Type().Underlying().(*types.Map).Elem()}})
	case *ssa.MapUpdate:
		mv := m.get(fr, x.Map).(MapV)
		k := m.get(fr, x.Key)
		if mv.M == nil {
			m.raiseRuntime("assignment to entry in nil map")
		}
		ks := keyStringSym(k)
		mo := mv.M
		old, had := mo.kv[ks]
		if !had {
			mo.keys = append(mo.keys, ks)
		}
		mo.kv[ks] = m.get(fr, x.Value)
		mo.kraw[ks] = k
		m.trail = append(m.trail, func() {
			if had {
				mo.kv[ks] = old
			} else {
				delete(mo.kv, ks)
				delete(mo.kraw, ks)
				mo.keys = mo.keys[:len(mo.keys)-1]
			}
		})
	case *ssa.Lookup:
		m.setReg(fr, x, m.lookup(x, m.get(fr, x.X), m.get(fr, x.Index)))
	case *ssa.MakeClosure:
		f := Func{Fn: x.Fn.(*ssa.Function)}
		for _, b := range x.Bindings {
			f.Free = append(f.Free, m.get(fr, b))
		}
		m.setReg(fr, x, f)
	case *ssa.TypeAssert:
		m.setReg(fr, x, m.typeAssert(x, m.get(fr, x.X).(Iface)))
	case *ssa.If:
		c := m.get(fr, x.Cond).(*T)
		T, F := fr.block.Succs[0], fr.block.Succs[1]
		predT, predF := fr.block, fr.block
		if !c.IsC && !m.noShortCircuit && os.Getenv("VERIF_NOSC") == "" {
			// short-circuit merging: `a || b`, `a && b` chains whose operand blocks are pure are decided as ONE condition
			for iter := 0; iter < 12; iter++ {
				if b, ok := m.specBlock(fr, F); ok && F.Succs[0] == T && !hasPhi(T) {
					c = Or(c, b)
					predF = F
					F = F.Succs[1]
					continue
				}
				if b, ok := m.specBlock(fr, T); ok && T.Succs[1] == F && !hasPhi(F) {
					c = And(c, b)
					predT = T
					T = T.Succs[0]
					continue
				}
				break
			}
		}
		if m.decide(c) {
			m.jumpFrom(fr, predT, T)
		} else {
			m.jumpFrom(fr, predF, F)
		}
		return
	case *ssa.Jump:
		m.jump(fr, fr.block.Succs[0])
		return
	case *ssa.Return:
		rs := make([]Value, len(x.Results))
		for i, r := range x.Results {
			rs[i] = m.get(fr, r)
		}
		m.doReturn(fr, rs)
		return
	case *ssa.Panic:
		m.raiseValue(m.get(fr, x.X))
	case *ssa.Defer:
		fv, args := m.prepareCall(fr, &x.Call)
		m.setDefers(fr, append(append([]deferred(nil), fr.defers...), deferred{fv, args}))
	case *ssa.RunDefers:
		if n := len(fr.defers); n > 0 {
			d := fr.defers[n-1]
			m.setDefers(fr, fr.defers[:n-1])
			m.callValue(d.fn, d.args, nil, true)
			return
		}
	case *ssa.Call:
		m.doCall(fr, x)
		return
	case *ssa.DebugRef:
	default:
		panic(unsupported{fmt.Sprintf("instruction %T", in)})
	}
	m.advance(fr)
}

var symKeySeq int

// keyStringSym: like keyString, but a symbolic key gets a fresh entry name (lookups compare key terms).
func keyStringSym(k Value) (s string) {
	defer func() {
		if r := recover(); r != nil {
			if _, ok := r.(unsupported); ok {
				symKeySeq++
				s = fmt.Sprintf("sym#%d", symKeySeq)
				return
			}
			panic(r)
		}
	}()
	return keyString(k)
}

func keyString(k Value) string {
	switch x := k.(type) {
	case *T:
		if !x.IsC {
			panic(unsupported{"symbolic map key in update"})
		}
		return fmt.Sprintf("i%d:%d", x.W, x.C)
	case Str:
		b := make([]byte, len(x.B))
		for i, c := range x.B {
			if !c.IsC {
				panic(unsupported{"symbolic string map key in update"})
			}
			b[i] = byte(c.C)
		}
		return "s" + string(b)
	case Array:
		s := "a"
		for _, e := range x.E {
			s += keyString(e) + ","
		}
		return s
	}
	panic(unsupported{fmt.Sprintf("map key %T", k)})
}

func (m *Machine) prepareCall(fr *Frame, c *ssa.CallCommon) (Value, []Value) {
	var args []Value
	if c.IsInvoke() {
		recv := m.get(fr, c.Value).(Iface)
		if recv.T == nil {
			m.raiseRuntime("nil interface method call")
		}
		for _, a := range c.Args {
			args = append(args, m.get(fr, a))
		}
		ms := m.prog.MethodSets.MethodSet(recv.T)
		sel := ms.Lookup(c.Method.Pkg(), c.Method.Name())
		if sel == nil {
			panic(unsupported{"method not found " + c.Method.Name() + " on " + recv.T.String()})
		}
		fn := m.prog.MethodValue(sel)
		return Func{Fn: fn, Recv: recv.V}, args
	}
	for _, a := range c.Args {
		args = append(args, m.get(fr, a))
	}
	return m.get(fr, c.Value), args
}

func typeKey(t types.Type) string { return t.String() }

func (m *Machine) doCall(fr *Frame, x *ssa.Call) {
	c := &x.Call
	if b, ok := c.Value.(*ssa.Builtin); ok {
		var args []Value
		for _, a := range c.Args {
			args = append(args, m.get(fr, a))
		}
		r := m.builtin(fr, b.Name(), args, c)
		m.setReg(fr, x, r)
		m.advance(fr)
		return
	}
	fv, args := m.prepareCall(fr, c)
	f := fv.(Func)
	if f.Fn == nil {
		m.raiseRuntime("call of nil function")
	}
	m.callValue(fv, args, x, false)
}

// Explore2Persist runs the current frame stack to completion on a single path and keeps the effects.
func (m *Machine) Explore2Persist() {
	for {
		ev := m.runUntilEvent()
		switch e := ev.(type) {
		case pathEnd:
			m.halted = false
			m.trail = nil
			m.pathStep = 0
			return
		default:
			panic(fmt.Sprintf("fork during concrete execution: %#v at %s", e, m.where()))
		}
	}
}
