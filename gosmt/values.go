package main

import (
	"fmt"
	"go/types"

	"golang.org/x/tools/go/ssa"
)

type Value interface{}

// Scalars are *T (ints: BV w, bools: W==0, floats: BV of bits).
type Struct struct{ F []Value }
type Array struct{ E []Value }
type Str struct{ B []*T }
type Slice struct {
	BA            *ByteArr // for byte slices
	AL            *Loc     // for other element types: array Loc with sub
	Off, Len, Cap *T       // BV64
	NilC          *T       // when non-nil: symbolic "this slice is nil" (merged values); otherwise nil-ness is BA==nil && AL==nil
}

func (s Slice) isNilTerm() *T {
	if s.NilC != nil {
		return s.NilC
	}
	return BoolC(s.BA == nil && s.AL == nil)
}
type Ptr struct {
	L   *Loc     // direct location
	BA  *ByteArr // element of a byte array
	Idx *T       // index (BA) or symbolic index into AL.sub
	AL  *Loc     // symbolic-index element of array loc
	Nil bool
}
type Iface struct {
	T types.Type // nil => nil interface
	V Value
}
type Func struct {
	Fn   *ssa.Function
	Free []Value
	Recv Value // bound receiver (for method values), optional
	Name string
}
type MapV struct{ M *MapObj }
type Tuple []Value

type MapObj struct {
	keys []string
	kv   map[string]Value
	kraw map[string]Value
	elem types.Type
}

// Loc is an addressable memory location.
type Loc struct {
	opaqueID *T // opaque library object (e.g. *time.Location): identity is this uninterpreted id, decided by the solver
	typ types.Type
	v   Value    // scalar-like contents
	sub []*Loc   // struct fields / array elements
	ba  *ByteArr // [N]byte arrays
}

// ByteArr is a lazily updated byte array.
type ByteArr struct {
	n    int
	name string
	base func(i *T) *T
	upd  []baUpd
}
type baUpd struct {
	// point store: idx,val ; range copy: dst,n,src(snapshot),srcOff
	point  bool
	idx    *T
	val    *T
	dst, n *T
	src    *ByteArr
	srcLen int // snapshot: number of updates of src visible
	srcOff *T
}

var baSeq int

func newZeroBA(n int) *ByteArr {
	baSeq++
	return &ByteArr{n: n, name: fmt.Sprintf("ba%d", baSeq), base: func(i *T) *T { return BV(8, 0) }}
}
func newUFBA(n int, uf string) *ByteArr {
	baSeq++
	return &ByteArr{n: n, name: uf, base: func(i *T) *T { return App(uf, 8, i) }}
}
func newConstBA(b []byte) *ByteArr {
	baSeq++
	bb := append([]byte(nil), b...)
	return &ByteArr{n: len(b), name: fmt.Sprintf("ba%d", baSeq), base: func(i *T) *T {
		if i.IsC {
			if int(i.C) < len(bb) {
				return BV(8, uint64(bb[i.C]))
			}
			return BV(8, 0)
		}
		// symbolic index into constant: compact table
		vs := make([]Value, len(bb))
		for k := range vs {
			vs[k] = BV(8, uint64(bb[k]))
		}
		return constTable(i, vs)
	}}
}

func (a *ByteArr) readAt(i *T, nupd int) *T {
	// walk updates newest -> oldest
	type pend struct {
		c *T
		v *T
	}
	var chain []pend
	var rest *T
	for k := nupd - 1; k >= 0 && rest == nil; k-- {
		u := &a.upd[k]
		if u.point {
			c := Eq(i, u.idx)
			if c.True() {
				rest = u.val
				break
			}
			if c.False() {
				continue
			}
			chain = append(chain, pend{c, u.val})
			continue
		}
		// range copy
		c := And(Cmp("bvule", u.dst, i), Cmp("bvult", Bin("bvsub", i, u.dst), u.n))
		if c.False() {
			continue
		}
		sv := u.src.readAt(Bin("bvadd", Bin("bvsub", i, u.dst), u.srcOff), u.srcLen)
		if c.True() {
			rest = sv
			break
		}
		chain = append(chain, pend{c, sv})
	}
	if rest == nil {
		rest = a.base(i)
	}
	for k := len(chain) - 1; k >= 0; k-- {
		rest = Ite(chain[k].c, chain[k].v, rest)
	}
	return rest
}

func (a *ByteArr) Read(i *T) *T { return a.readAt(i, len(a.upd)) }

func (m *Machine) baStore(a *ByteArr, i, v *T) {
	old := len(a.upd)
	a.upd = append(a.upd, baUpd{point: true, idx: i, val: v})
	m.trail = append(m.trail, func() { a.upd = a.upd[:old] })
}
func (m *Machine) baCopy(dst *ByteArr, dOff, n *T, src *ByteArr, sOff *T) {
	if n.IsC && n.C == 0 {
		return
	}
	// small constant copies become point stores (values read eagerly)
	if n.IsC && n.C <= 16 {
		vals := make([]*T, n.C)
		for k := range vals {
			vals[k] = src.Read(Bin("bvadd", sOff, BV(64, uint64(k))))
		}
		for k := range vals {
			m.baStore(dst, Bin("bvadd", dOff, BV(64, uint64(k))), vals[k])
		}
		return
	}
	old := len(dst.upd)
	dst.upd = append(dst.upd, baUpd{dst: dOff, n: n, src: src, srcLen: len(src.upd), srcOff: sOff})
	m.trail = append(m.trail, func() { dst.upd = dst.upd[:old] })
}

// ---- zero values and locations ----

func isByte(t types.Type) bool {
	b, ok := t.Underlying().(*types.Basic)
	return ok && (b.Kind() == types.Uint8)
}

func intWidth(t types.Type) (w int, signed bool, ok bool) {
	b, isb := t.Underlying().(*types.Basic)
	if !isb {
		return 0, false, false
	}
	switch b.Kind() {
	case types.Int8:
		return 8, true, true
	case types.Int16:
		return 16, true, true
	case types.Int32:
		return 32, true, true
	case types.Int64, types.Int, types.UntypedInt:
		return 64, true, true
	case types.Uint8:
		return 8, false, true
	case types.Uint16:
		return 16, false, true
	case types.Uint32:
		return 32, false, true
	case types.Uint64, types.Uint, types.Uintptr:
		return 64, false, true
	case types.UntypedRune:
		return 32, true, true
	}
	return 0, false, false
}

func floatWidth(t types.Type) int {
	b, isb := t.Underlying().(*types.Basic)
	if !isb {
		return 0
	}
	switch b.Kind() {
	case types.Float32:
		return 32
	case types.Float64, types.UntypedFloat:
		return 64
	}
	return 0
}

func zeroValue(t types.Type) Value {
	switch u := t.Underlying().(type) {
	case *types.Basic:
		if w, _, ok := intWidth(t); ok {
			return BV(w, 0)
		}
		if w := floatWidth(t); w > 0 {
			return BV(w, 0)
		}
		switch u.Kind() {
		case types.Bool, types.UntypedBool:
			return BoolC(false)
		case types.String, types.UntypedString:
			return Str{}
		case types.UnsafePointer, types.UntypedNil:
			return Ptr{Nil: true}
		}
	case *types.Pointer:
		return Ptr{Nil: true}
	case *types.Slice:
		return Slice{Off: BV(64, 0), Len: BV(64, 0), Cap: BV(64, 0)}
	case *types.Struct:
		s := Struct{F: make([]Value, u.NumFields())}
		for i := range s.F {
			s.F[i] = zeroValue(u.Field(i).Type())
		}
		return s
	case *types.Array:
		a := Array{E: make([]Value, u.Len())}
		for i := range a.E {
			a.E[i] = zeroValue(u.Elem())
		}
		return a
	case *types.Interface:
		return Iface{}
	case *types.Signature:
		return Func{}
	case *types.Map:
		return MapV{}
	case *types.Tuple:
		tt := make(Tuple, u.Len())
		for i := range tt {
			tt[i] = zeroValue(u.At(i).Type())
		}
		return tt
	case *types.Chan:
		return nil
	}
	panic("zeroValue: " + t.String())
}

func newLoc(t types.Type) *Loc {
	l := &Loc{typ: t}
	switch u := t.Underlying().(type) {
	case *types.Struct:
		l.sub = make([]*Loc, u.NumFields())
		for i := range l.sub {
			l.sub[i] = newLoc(u.Field(i).Type())
		}
	case *types.Array:
		if isByte(u.Elem()) {
			l.ba = newZeroBA(int(u.Len()))
		} else {
			l.sub = make([]*Loc, u.Len())
			for i := range l.sub {
				l.sub[i] = newLoc(u.Elem())
			}
		}
	default:
		l.v = zeroValue(t)
	}
	return l
}

func (m *Machine) setLoc(l *Loc, v Value) {
	old := l.v
	l.v = v
	m.trail = append(m.trail, func() { l.v = old })
}

// load reads a full value out of a location tree.
func (m *Machine) load(l *Loc) Value {
	if l.sub != nil {
		if _, ok := l.typ.Underlying().(*types.Struct); ok {
			s := Struct{F: make([]Value, len(l.sub))}
			for i, f := range l.sub {
				s.F[i] = m.load(f)
			}
			return s
		}
		a := Array{E: make([]Value, len(l.sub))}
		for i, f := range l.sub {
			a.E[i] = m.load(f)
		}
		return a
	}
	if l.ba != nil {
		a := Array{E: make([]Value, l.ba.n)}
		for i := range a.E {
			a.E[i] = l.ba.Read(BV(64, uint64(i)))
		}
		return a
	}
	if l.v == nil {
		if _, ok := l.typ.Underlying().(*types.Struct); ok { // empty struct
			return Struct{}
		}
		if _, ok := l.typ.Underlying().(*types.Array); ok {
			return Array{}
		}
	}
	return l.v
}

func (m *Machine) store(l *Loc, v Value) {
	if l.sub != nil {
		switch x := v.(type) {
		case Struct:
			for i, f := range l.sub {
				m.store(f, x.F[i])
			}
		case Array:
			for i, f := range l.sub {
				m.store(f, x.E[i])
			}
		default:
			panic(fmt.Sprintf("store aggregate: %T into %s", v, l.typ))
		}
		return
	}
	if l.ba != nil {
		a := v.(Array)
		for i, e := range a.E {
			m.baStore(l.ba, BV(64, uint64(i)), e.(*T))
		}
		return
	}
	m.setLoc(l, v)
}

func (m *Machine) loadPtr(p Ptr) Value {
	switch {
	case p.Nil:
		m.raiseRuntime("nil pointer dereference")
		return nil
	case p.L != nil:
		return m.load(p.L)
	case p.BA != nil:
		return p.BA.Read(p.Idx)
	case p.AL != nil:
		// symbolic index: ite chain over scalar-like element values
		{
			vs := make([]Value, len(p.AL.sub))
			for k := range vs {
				vs[k] = m.load(p.AL.sub[k])
			}
			if r := constTable(p.Idx, vs); r != nil {
				return r
			}
		}
		var r Value
		for k := len(p.AL.sub) - 1; k >= 0; k-- {
			ev := m.load(p.AL.sub[k])
			if r == nil {
				r = ev
			} else {
				r = iteValue(Eq(p.Idx, BV(64, uint64(k))), ev, r)
			}
		}
		return r
	}
	panic("loadPtr")
}

func (m *Machine) storePtr(p Ptr, v Value) {
	switch {
	case p.Nil:
		m.raiseRuntime("nil pointer dereference")
	case p.L != nil:
		m.store(p.L, v)
	case p.BA != nil:
		m.baStore(p.BA, p.Idx, v.(*T))
	case p.AL != nil:
		for k := range p.AL.sub {
			old := m.load(p.AL.sub[k])
			m.store(p.AL.sub[k], iteValue(Eq(p.Idx, BV(64, uint64(k))), v, old))
		}
	default:
		panic("storePtr")
	}
}

func iteValue(c *T, a, b Value) Value {
	if c.True() {
		return a
	}
	if c.False() {
		return b
	}
	switch x := a.(type) {
	case *T:
		return Ite(c, x, b.(*T))
	case Struct:
		y := b.(Struct)
		r := Struct{F: make([]Value, len(x.F))}
		for i := range x.F {
			r.F[i] = iteValue(c, x.F[i], y.F[i])
		}
		return r
	case Array:
		y := b.(Array)
		r := Array{E: make([]Value, len(x.E))}
		for i := range x.E {
			r.E[i] = iteValue(c, x.E[i], y.E[i])
		}
		return r
	case Str:
		y := b.(Str)
		if len(x.B) == len(y.B) {
			r := Str{B: make([]*T, len(x.B))}
			for i := range x.B {
				r.B[i] = Ite(c, x.B[i], y.B[i])
			}
			return r
		}
	case Ptr:
		y := b.(Ptr)
		if x == y {
			return x
		}
	case Slice:
		y := b.(Slice)
		xn, yn := x.BA == nil && x.AL == nil, y.BA == nil && y.AL == nil
		if (xn || yn || (x.BA == y.BA && x.AL == y.AL)) && x.NilC == nil || (x.BA == y.BA && x.AL == y.AL) {
			r := Slice{BA: x.BA, AL: x.AL, Off: Ite(c, x.Off, y.Off), Len: Ite(c, x.Len, y.Len), Cap: Ite(c, x.Cap, y.Cap)}
			if xn {
				r.BA, r.AL = y.BA, y.AL
			}
			nt := Ite(c, x.isNilTerm(), y.isNilTerm())
			if !nt.IsC {
				r.NilC = nt
			} else if nt.True() {
				return Slice{Off: BV(64, 0), Len: BV(64, 0), Cap: BV(64, 0)}
			}
			return r
		}
	case Iface:
		y := b.(Iface)
		if x.T == y.T && x.T == nil {
			return x
		}
		if x.T != nil && y.T != nil && types.Identical(x.T, y.T) {
			if xp, ok := x.V.(Ptr); ok {
				if yp, ok := y.V.(Ptr); ok && xp == yp {
					return x
				}
			}
		}
	}
	panic(unmergeable{})
}

type unmergeable struct{}

// freeze turns a fully concrete byte array into a constant-base array (compact symbolic lookups).
func (a *ByteArr) freeze() {
	bb := make([]byte, a.n)
	for k := range bb {
		t := a.Read(BV(64, uint64(k)))
		if !t.IsC {
			return
		}
		bb[k] = byte(t.C)
	}
	c := newConstBA(bb)
	a.base = c.base
	a.upd = nil
}

func freezeLoc(l *Loc, seen map[*Loc]bool) {
	if l == nil || seen[l] {
		return
	}
	seen[l] = true
	if l.ba != nil {
		l.ba.freeze()
	}
	for _, s := range l.sub {
		freezeLoc(s, seen)
	}
}
