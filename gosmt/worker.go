package main

import (
	"bufio"
	"encoding/json"
	"fmt"
	"os"
	"sort"
	"strings"
	"time"

	"golang.org/x/tools/go/ssa"
)

type Item struct {
	Pkg      string `json:"pkg"` // import path relative to the module ("" = root)
	Fn       string `json:"fn"`
	Part     int    `json:"part"`
	Parts    int    `json:"parts"`
	Tier     int    `json:"tier"`
	TimeoutS int    `json:"timeout_s"`
	MaxPaths int    `json:"max_paths"`
	MaxSteps int    `json:"max_steps"`
	Samples  int    `json:"samples"`
	Seed     int    `json:"seed"`
	NoPure   bool   `json:"no_pure"`
	SolverMs int    `json:"solver_ms"`
	Trace    bool   `json:"trace"`
}

type FnInfo struct {
	Fn     string `json:"fn"`
	Instrs int    `json:"ssa_instrs"`
}

type ItemResult struct {
	Item       Item                `json:"item"`
	Paths      int                 `json:"paths"`
	Forks      int                 `json:"forks"`
	Steps      int                 `json:"steps"`
	Queries    int                 `json:"queries"`
	Sat        int                 `json:"sat"`
	Unsat      int                 `json:"unsat"`
	Unknown    int                 `json:"unknown"`
	SolverS    float64             `json:"solver_s"`
	WallS      float64             `json:"wall_s"`
	Findings   []*Finding          `json:"findings"`
	Reached    map[string]int      `json:"reached"`
	Asserts    map[string]int      `json:"asserts"`
	Functions  []FnInfo            `json:"functions"`
	Stubs      map[string]int      `json:"stubs"`
	Samples    []map[string]uint64 `json:"samples"`
	Incomplete string              `json:"incomplete,omitempty"`
	PureCalls  int                 `json:"pure_calls"`
	Terms      int                 `json:"terms"`
	Error      string              `json:"error,omitempty"`
	PartsN     int                 `json:"parts_n,omitempty"`
	Notes      []string            `json:"notes,omitempty"`
}

func pkgPath(rel string) string {
	if rel == "" || rel == "." {
		return repoMod
	}
	return repoMod + "/" + rel
}

func resetTerms() {
	termTab = map[string]*T{}
	termTabK = map[termKey]*T{}
	boolT, boolF = nil, nil
	smallBV = [65][256]*T{}
	termSeq = 0
	bindSeq = 0
	baSeq = 0
	errSeq = 0
	pureCache = map[*ssa.Function]int{}
	resetHarnessState()
	fpIgnoreZeroSign = false
}

// runItem executes one harness (one partition of it) symbolically.
func runItem(P *Program, it Item) (res *ItemResult) {
	res = &ItemResult{Item: it}
	t0 := time.Now()
	resetTerms()
	var m *Machine
	defer func() {
		if r := recover(); r != nil {
			res.Error = fmt.Sprint(r)
		}
		if m != nil {
			m.sol.Close()
		}
		res.WallS = time.Since(t0).Seconds()
	}()
	pkg := P.pkgs[pkgPath(it.Pkg)]
	if pkg == nil {
		res.Error = "package not found: " + it.Pkg
		return
	}
	fn := pkg.Func(it.Fn)
	if fn == nil {
		res.Error = "harness function not found: " + it.Fn
		return
	}
	m = NewMachine(P.prog)
	m.tier, m.part = it.Tier, it.Part
	m.noPure = it.NoPure
	m.trace = it.Trace
	if it.MaxSteps > 0 {
		m.maxSteps = it.MaxSteps
	}
	if smtLogFile != "" {
		f, _ := os.Create(smtLogFile)
		m.sol.Log = f
	}
	m.sampleMax = it.Samples
	m.maxPaths = it.MaxPaths
	if it.SolverMs > 0 {
		m.sol.send(fmt.Sprintf("(set-option :timeout %d)", it.SolverMs))
	}
	if it.Seed != 0 {
		m.sol.send(fmt.Sprintf("(set-option :random-seed %d)", it.Seed))
	}
	// package initialisers, concretely
	m.callFunction(pkg.Func("init"), nil, nil, false)
	m.Explore2Persist()
	seen := map[*Loc]bool{}
	for _, l := range m.globals {
		freezeLoc(l, seen)
	}
	if len(m.findings) > 0 {
		for _, k := range m.findingOrder {
			f := m.findings[k]
			res.Error += fmt.Sprintf("finding during init: %s %s %s; ", f.Kind, f.Where, f.Msg)
		}
		return
	}
	m.fnsEncoded = map[*ssa.Function]bool{}
	m.stubsUsed = map[string]int{}
	m.Steps = 0
	if it.Parts == -1 {
		// query the partition count
		if nf := pkg.Func(it.Fn + "_N"); nf != nil {
			m.callFunction(nf, nil, nil, false)
			m.Explore2Persist()
			res.PartsN = int(m.result.(*T).C)
		} else {
			res.PartsN = 1
		}
		return
	}
	if it.TimeoutS > 0 {
		m.deadline = time.Now().Add(time.Duration(it.TimeoutS) * time.Second)
	}
	m.callFunction(fn, nil, nil, false)
	m.Explore()
	res.Paths, res.Forks, res.Steps = m.Paths, m.Forks, m.Steps
	res.Queries, res.Sat, res.Unsat, res.Unknown = m.sol.Queries, m.sol.Sat, m.sol.Unsat, m.sol.Unknown
	res.SolverS = m.sol.Time.Seconds()
	if m.lra != nil { // linear real arithmetic session (lin.go)
		res.Queries, res.Sat, res.Unsat, res.Unknown = res.Queries+m.lra.Queries, res.Sat+m.lra.Sat, res.Unsat+m.lra.Unsat, res.Unknown+m.lra.Unknown
		res.SolverS += m.lra.Time.Seconds()
		m.lra.close()
	}
	res.Notes = append(res.Notes, m.lraNotes...)
	res.PureCalls, res.Terms = m.PureCalls, termSeq
	for _, k := range m.findingOrder {
		res.Findings = append(res.Findings, m.findings[k])
	}
	res.Reached = reached
	res.Asserts = m.assertsSeen
	res.Stubs = m.stubsUsed
	res.Samples = m.samples
	res.Incomplete = m.aborted
	if m.sol.Unknown > 0 && res.Incomplete == "" {
		res.Incomplete = fmt.Sprintf("%d solver queries returned unknown", m.sol.Unknown)
	}
	for f := range m.fnsEncoded {
		n := 0
		for _, b := range f.Blocks {
			n += len(b.Instrs)
		}
		res.Functions = append(res.Functions, FnInfo{f.String(), n})
	}
	sort.Slice(res.Functions, func(i, j int) bool { return res.Functions[i].Fn < res.Functions[j].Fn })
	return
}

// workerMain: read Items (JSON lines) on stdin, write ItemResults (JSON lines) on stdout.
func workerMain(extraDir string) {
	extra := map[string][]byte{}
	if extraDir != "" {
		extra = readExtra(extraDir)
	}
	ov, err := buildOverlay(extra)
	if err != nil {
		fmt.Fprintln(os.Stderr, "overlay:", err)
		os.Exit(4)
	}
	P, err := loadProgram(ov)
	if err != nil {
		fmt.Fprintln(os.Stderr, "load:", err)
		os.Exit(4)
	}
	out := bufio.NewWriter(os.Stdout)
	fmt.Fprintln(out, `{"ready":true}`)
	out.Flush()
	sc := bufio.NewScanner(os.Stdin)
	sc.Buffer(make([]byte, 1<<20), 1<<26)
	for sc.Scan() {
		line := strings.TrimSpace(sc.Text())
		if line == "" {
			continue
		}
		var it Item
		if err := json.Unmarshal([]byte(line), &it); err != nil {
			fmt.Fprintln(os.Stderr, "bad item:", err)
			continue
		}
		r := runItem(P, it)
		b, _ := json.Marshal(r)
		out.Write(b)
		out.WriteByte('\n')
		out.Flush()
	}
}

// listHarnesses returns, per package (relative path), the zz<ID>_* harness functions (no params, no results).
func listHarnesses(P *Program, id string) []Item {
	var items []Item
	for path, p := range P.pkgs {
		if !strings.HasPrefix(path, repoMod) {
			continue
		}
		rel := strings.TrimPrefix(strings.TrimPrefix(path, repoMod), "/")
		for name, mem := range p.Members {
			f, ok := mem.(*ssa.Function)
			if !ok || !strings.HasPrefix(name, "zz"+id+"_") || strings.HasSuffix(name, "_N") {
				continue
			}
			if f.Signature.Params().Len() != 0 || f.Signature.Results().Len() != 0 {
				continue
			}
			items = append(items, Item{Pkg: rel, Fn: name})
		}
	}
	sort.Slice(items, func(i, j int) bool {
		if items[i].Pkg != items[j].Pkg {
			return items[i].Pkg < items[j].Pkg
		}
		return items[i].Fn < items[j].Fn
	})
	return items
}
