package main

import (
	"fmt"
	"go/types"
)

// havocValue replaces the contents reachable from a pooled object by fresh solver variables ("history
// variables", DESIGN §5/C04): every scalar, every byte of every byte array. Shapes (slice headers, pointers,
// interfaces, function values) are kept. *bufio.Reader keeps its indices (a pooled reader is always in a valid
// state) and only its buffer contents become arbitrary.
func (m *Machine) havocValue(v Value) {
	seen := map[*Loc]bool{}
	m.havocVal(v, nil, seen)
}

func (m *Machine) freshHV(w int) *T {
	m.havocSeq++
	v := Var(fmt.Sprintf("hv_%d", m.havocSeq), w)
	m.addInput(v)
	return v
}

func (m *Machine) havocBA(a *ByteArr) {
	m.havocSeq++
	name := fmt.Sprintf("hvba_%d", m.havocSeq)
	oldBase, oldUpd := a.base, a.upd
	a.base = func(i *T) *T { return App(name, 8, i) }
	a.upd = nil
	m.trail = append(m.trail, func() { a.base, a.upd = oldBase, oldUpd })
}

func (m *Machine) havocVal(v Value, t types.Type, seen map[*Loc]bool) {
	switch x := v.(type) {
	case Iface:
		if x.T != nil {
			m.havocVal(x.V, x.T, seen)
		}
	case Ptr:
		if x.L != nil {
			m.havocLoc(x.L, seen)
		}
	case Slice:
		if x.BA != nil {
			m.havocBA(x.BA)
		}
		if x.AL != nil {
			m.havocLoc(x.AL, seen)
		}
	}
}

func (m *Machine) havocLoc(l *Loc, seen map[*Loc]bool) {
	if l == nil || seen[l] {
		return
	}
	seen[l] = true
	if n, ok := l.typ.(*types.Named); ok && n.Obj().Pkg() != nil && n.Obj().Pkg().Path() == "bufio" && n.Obj().Name() == "Reader" {
		// field 0 is buf []byte
		if s, ok := l.sub[0].v.(Slice); ok && s.BA != nil {
			m.havocBA(s.BA)
		}
		return
	}
	if l.ba != nil {
		m.havocBA(l.ba)
		return
	}
	if l.sub != nil {
		for _, s := range l.sub {
			m.havocLoc(s, seen)
		}
		return
	}
	switch x := l.v.(type) {
	case *T:
		if x.W == 0 {
			m.setLoc(l, Not(Eq(m.freshHV(8), BV(8, 0))))
		} else {
			m.setLoc(l, m.freshHV(x.W))
		}
	case Ptr, Slice, Iface:
		m.havocVal(x, nil, seen)
	}
}
