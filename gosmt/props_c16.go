package main

import (
	"bytes"
	"fmt"
	"go/types"
	"path/filepath"
	"sort"
	"strings"

	"golang.org/x/tools/go/packages"
)

// C16 (MessagePack part): for every repository type with MarshalMsg / UnmarshalMsg / Msgsize a generated harness
// makes the value a full-width solver variable and checks the byte-slice round trip, the size hint and the
// totality of UnmarshalMsg on arbitrary bytes. The text/JSON/binary parts are hand-written harness files.

func symValueExpr(t types.Type, name string, depth int) (string, bool) {
	switch u := t.Underlying().(type) {
	case *types.Basic:
		ts := types.TypeString(t, func(p *types.Package) string { return "" })
		if i := strings.LastIndex(ts, "."); i >= 0 {
			ts = ts[i+1:]
		}
		switch u.Kind() {
		case types.Uint8:
			return fmt.Sprintf("%s(zzU8(%q))", ts, name), true
		case types.Int8:
			return fmt.Sprintf("%s(int8(zzU8(%q)))", ts, name), true
		case types.Uint16:
			return fmt.Sprintf("%s(zzU16(%q))", ts, name), true
		case types.Int16:
			return fmt.Sprintf("%s(zzI16(%q))", ts, name), true
		case types.Uint32:
			return fmt.Sprintf("%s(zzU32(%q))", ts, name), true
		case types.Int32:
			return fmt.Sprintf("%s(zzI32(%q))", ts, name), true
		case types.Uint64, types.Uint:
			return fmt.Sprintf("%s(zzU64(%q))", ts, name), true
		case types.Int64, types.Int:
			return fmt.Sprintf("%s(int64(zzU64(%q)))", ts, name), true
		case types.Float32:
			return fmt.Sprintf("%s(zzmath.Float32frombits(zzU32(%q)))", ts, name), true
		case types.Float64:
			return fmt.Sprintf("%s(zzmath.Float64frombits(zzU64(%q)))", ts, name), true
		case types.Bool:
			return fmt.Sprintf("%s(zzBool(%q))", ts, name), true
		}
	}
	return "", false
}

func genC16(tier int) (map[string][]byte, error) {
	cfg := &packages.Config{Mode: packages.NeedName | packages.NeedTypes | packages.NeedImports | packages.NeedDeps, Dir: repoDir, Env: goEnv()}
	pkgs, err := packages.Load(cfg, "./...")
	if err != nil {
		return nil, err
	}
	out := map[string][]byte{}
	for _, p := range pkgs {
		if !strings.HasPrefix(p.PkgPath, repoMod) || strings.HasPrefix(p.PkgPath, repoMod+"/cmd") || p.Types == nil {
			continue
		}
		rel := strings.TrimPrefix(strings.TrimPrefix(p.PkgPath, repoMod), "/")
		var sb bytes.Buffer
		sc := p.Types.Scope()
		names := sc.Names()
		sort.Strings(names)
		n := 0
		for _, tnm := range names {
			tn, ok := sc.Lookup(tnm).(*types.TypeName)
			if !ok || tn.IsAlias() {
				continue
			}
			named, ok := tn.Type().(*types.Named)
			if !ok {
				continue
			}
			ms := types.NewMethodSet(types.NewPointer(named))
			has := func(m string) bool { return ms.Lookup(p.Types, m) != nil }
			if !has("MarshalMsg") || !has("UnmarshalMsg") || !has("Msgsize") {
				continue
			}
			// build a symbolic value
			var decl string
			eq := "w == v"
			switch u := named.Underlying().(type) {
			case *types.Basic:
				e, ok := symValueExpr(named, "v", 0)
				if !ok {
					continue
				}
				decl = "v := " + e
				if u.Kind() == types.Float32 {
					eq = "zzmath.Float32bits(float32(w)) == zzmath.Float32bits(float32(v))"
				}
				if u.Kind() == types.Float64 {
					eq = "zzmath.Float64bits(float64(w)) == zzmath.Float64bits(float64(v))"
				}
			case *types.Array:
				var parts []string
				okAll := true
				for i := 0; i < int(u.Len()); i++ {
					e, ok := symValueExpr(u.Elem(), fmt.Sprintf("v%d", i), 0)
					if !ok {
						okAll = false
					}
					parts = append(parts, e)
				}
				if !okAll || u.Len() > 8 {
					continue
				}
				decl = fmt.Sprintf("v := %s{%s}", tnm, strings.Join(parts, ", "))
			case *types.Struct:
				var parts []string
				okAll := true
				for i := 0; i < u.NumFields(); i++ {
					e, ok := symValueExpr(u.Field(i).Type(), "v_"+u.Field(i).Name(), 0)
					if !ok {
						okAll = false
					}
					parts = append(parts, u.Field(i).Name()+": "+e)
				}
				if !okAll || u.NumFields() > 6 {
					continue
				}
				decl = fmt.Sprintf("v := %s{%s}", tnm, strings.Join(parts, ", "))
			default:
				continue
			}
			n++
			fmt.Fprintf(&sb, "// MessagePack round trip and size hint of %s, every value\nfunc zzC16_msg_%s() {\n\t%s\n\tb, err := v.MarshalMsg(nil)\n", tnm, tnm, decl)
			fmt.Fprintf(&sb, "\tzzAssert(err == nil, %q)\n\tzzAssert(len(b) <= v.Msgsize(), %q)\n", tnm+".MarshalMsg succeeds", tnm+".Msgsize is an upper bound of the encoding")
			fmt.Fprintf(&sb, "\tvar w %s\n\trest, err := w.UnmarshalMsg(b)\n\tzzAssert(err == nil && len(rest) == 0, %q)\n\tzzAssert(%s, %q)\n\tzzReached(\"end\")\n}\n\n", tnm, tnm+".UnmarshalMsg consumes exactly the encoding", eq, tnm+" survives the MessagePack round trip")
			fmt.Fprintf(&sb, "// UnmarshalMsg of %s is total on arbitrary bytes\nfunc zzC16_msgtotal_%s_N() int { return 5 }\nfunc zzC16_msgtotal_%s() {\n\tlens := [][]int{{0, 1, 2}, {3, 4, 5}, {6, 9, 10}, {12}, {}}[zzPart()]\n\tif zzTier() == 1 && zzPart() == 4 {\n\t\tlens = []int{17}\n\t}\n\tfor _, n := range lens {\n\t\tb := zzBytes(\"t\", n)\n\t\tvar w %s\n\t\t_, _ = w.UnmarshalMsg(b)\n\t}\n\tzzReached(\"end\")\n}\n\n", tnm, tnm, tnm, tnm)
		}
		if n > 0 {
			hdr := fmt.Sprintf("package %s\n\n// generated on every run from the type-checked repository (types with MarshalMsg/UnmarshalMsg/Msgsize)\n\nimport zzmath \"math\"\n\nvar _ = zzmath.Pi\n\n", p.Name)
			out[filepath.Join(rel, "zz_verif_c16_gen.go")] = append([]byte(hdr), sb.Bytes()...)
		}
	}
	return out, nil
}

func init() {
	register(&CheckDef{ID: "C16", Level: "model_checking", Gen: genC16, Timeout: [2]int{700, 1500},
		Assumptions: []string{
			"strconv.ParseFloat / AppendFloat / FormatFloat are uninterpreted (decimal float text round trips of Aperture, FocalLength, ExposureTime are NOT decided; only totality, suffix handling and the MessagePack bit-pattern round trip are)",
			"msgp byte-slice API, encoding/hex, strconv integer formatting are interpreted from their real SSA",
			"encoding/json's reflection driver and the streaming EncodeMsg/DecodeMsg (msgp.Reader/Writer) are not executed; the methods they call are",
			"floats are bit patterns; float arithmetic is uninterpreted (fp=uf)",
		},
		Bounds: map[string]interface{}{"values": "every value of each type (full-width solver variable)", "text_len": "arbitrary byte strings of every length 0..48 quick (0..50 thorough) for text decoders; lengths {0..6,9,10,12} (+17 thorough) for UnmarshalMsg"},
	})
}
