package main

// Exact-real reading of a float kernel (C18-3): the terms the symbolic machine builds for a straight-line float kernel
// (uninterpreted fadd/fsub/fmul/fdiv applications over the input bit patterns and constants) are re-read as linear forms
// over the reals with exact rational coefficients, together with a running bound of the rounding error of the float
// evaluation. The obligation "for every real vector x: |kernel(x)_k - DCTII(x)_k| <= eps * ||x||_1" is then a linear
// real arithmetic query (by homogeneity over the l1 unit ball), discharged by a second z3 process (no logic set).

import (
	"bufio"
	"fmt"
	"io"
	"math"
	"math/big"
	"os/exec"
	"strings"
	"time"
)

type linForm struct {
	c      []*big.Rat // coefficient of input j
	maxAbs float64    // upper bound of max_j |c_j|
	err    float64    // max_j errv[j]: |float value - form(x)| <= err * ||x||_1 (rounding only; underflow/overflow excluded)
	errv   []float64  // |float value - form(x)| <= sum_j errv[j]*|x_j|
}

type linCtx struct {
	n    int
	w    int
	u    float64
	vars map[*T]int
	memo map[*T]*linForm
	ops  int
}

func ratOfFloatBits(w int, bits uint64) (*big.Rat, bool) {
	var f float64
	if w == 32 {
		f = float64(math.Float32frombits(uint32(bits)))
	} else {
		f = math.Float64frombits(bits)
	}
	if math.IsNaN(f) || math.IsInf(f, 0) {
		return nil, false
	}
	return new(big.Rat).SetFloat64(f), true
}

func up(x float64) float64 { return x * (1 + 1e-12) }

func absRat(r *big.Rat) float64 {
	if r == nil {
		return 0
	}
	v, _ := r.Float64()
	return up(math.Abs(v))
}

func (lc *linCtx) finish(f *linForm) *linForm {
	m := 0.0
	for _, c := range f.c {
		if c == nil {
			continue
		}
		v, _ := c.Float64()
		if a := math.Abs(v); a > m {
			m = a
		}
	}
	f.maxAbs = up(m)
	return f
}

// constOf: the term is a float constant (no input occurs in it)
func (lc *linCtx) constOf(t *T) (*big.Rat, bool) {
	if t.IsC {
		return ratOfFloatBits(lc.w, t.C)
	}
	return nil, false
}

func (lc *linCtx) of(t *T) (*linForm, error) {
	if f, ok := lc.memo[t]; ok {
		return f, nil
	}
	var f *linForm
	switch {
	case t.Op == "var":
		j, ok := lc.vars[t]
		if !ok {
			return nil, fmt.Errorf("variable %s is not an input of the kernel", t.Name)
		}
		f = &linForm{c: make([]*big.Rat, lc.n)}
		f.c[j] = big.NewRat(1, 1)
		f.maxAbs = 1
		f.errv = make([]float64, lc.n)
	case t.IsC:
		r, ok := ratOfFloatBits(lc.w, t.C)
		if !ok || r.Sign() != 0 {
			return nil, fmt.Errorf("additive constant %v in the kernel (not a linear map)", t.C)
		}
		f = &linForm{c: make([]*big.Rat, lc.n), errv: make([]float64, lc.n)}
	case t.Op == "ite" && len(t.Args) == 3 && t.Args[1].IsC && t.Args[1].C == 0:
		// x + (+0.0): (-0.0 -> +0.0, otherwise x): the real value is x
		return lc.of(t.Args[2])
	case t.Op == "app" && len(t.Args) == 2 && (strings.HasPrefix(t.Name, "fadd") || strings.HasPrefix(t.Name, "fsub")):
		a, err := lc.of(t.Args[0])
		if err != nil {
			return nil, err
		}
		b, err := lc.of(t.Args[1])
		if err != nil {
			return nil, err
		}
		f = &linForm{c: make([]*big.Rat, lc.n)}
		sub := strings.HasPrefix(t.Name, "fsub")
		for j := 0; j < lc.n; j++ {
			x, y := a.c[j], b.c[j]
			switch {
			case x == nil && y == nil:
			case y == nil:
				f.c[j] = x
			case x == nil:
				if sub {
					f.c[j] = new(big.Rat).Neg(y)
				} else {
					f.c[j] = y
				}
			default:
				if sub {
					f.c[j] = new(big.Rat).Sub(x, y)
				} else {
					f.c[j] = new(big.Rat).Add(x, y)
				}
				if f.c[j].Sign() == 0 {
					f.c[j] = nil
				}
			}
		}
		lc.finish(f)
		f.errv = make([]float64, lc.n)
		for j := range f.errv {
			f.errv[j] = up((a.errv[j]+b.errv[j])*(1+lc.u) + lc.u*absRat(f.c[j]))
			if f.errv[j] > f.err {
				f.err = f.errv[j]
			}
		}
		lc.ops++
	case t.Op == "app" && len(t.Args) == 2 && (strings.HasPrefix(t.Name, "fdiv") || strings.HasPrefix(t.Name, "fmul")):
		div := strings.HasPrefix(t.Name, "fdiv")
		x, k := t.Args[0], t.Args[1]
		if !div && x.IsC {
			x, k = k, x
		}
		kr, ok := lc.constOf(k)
		if !ok || kr.Sign() == 0 {
			return nil, fmt.Errorf("%s with a non-constant or zero second operand (not a linear map)", t.Name)
		}
		a, err := lc.of(x)
		if err != nil {
			return nil, err
		}
		if div {
			kr = new(big.Rat).Inv(kr)
		}
		f = &linForm{c: make([]*big.Rat, lc.n)}
		for j, c := range a.c {
			if c != nil {
				f.c[j] = new(big.Rat).Mul(c, kr)
			}
		}
		lc.finish(f)
		kf, _ := kr.Float64()
		f.errv = make([]float64, lc.n)
		for j := range f.errv {
			f.errv[j] = up(a.errv[j]*up(math.Abs(kf))*(1+lc.u) + lc.u*absRat(f.c[j]))
			if f.errv[j] > f.err {
				f.err = f.errv[j]
			}
		}
		lc.ops++
	default:
		return nil, fmt.Errorf("term %s/%s is not part of a linear float kernel", t.Op, t.Name)
	}
	lc.memo[t] = f
	return f, nil
}

// ---- a small LRA session

type lraSolver struct {
	cmd     *exec.Cmd
	w       *bufio.Writer
	out     *bufio.Reader
	Queries int
	Sat     int
	Unsat   int
	Unknown int
	Time    time.Duration
}

func newLRA() *lraSolver {
	cmd := exec.Command("z3", "-in")
	in, _ := cmd.StdinPipe()
	out, _ := cmd.StdoutPipe()
	cmd.Stderr = cmd.Stdout
	if err := cmd.Start(); err != nil {
		panic(err)
	}
	s := &lraSolver{cmd: cmd, w: bufio.NewWriterSize(in, 1<<16), out: bufio.NewReader(out)}
	s.send("(set-option :timeout 60000)")
	return s
}

func (s *lraSolver) send(x string) { s.w.WriteString(x); s.w.WriteByte('\n') }
func (s *lraSolver) close()        { s.send("(exit)"); s.w.Flush(); s.cmd.Wait() }

func (s *lraSolver) check() string {
	s.send("(check-sat)")
	s.w.Flush()
	t0 := time.Now()
	line, err := s.out.ReadString('\n')
	s.Time += time.Since(t0)
	s.Queries++
	line = strings.TrimSpace(line)
	if err != nil || strings.Contains(line, "error") {
		s.Unknown++
		return "unknown"
	}
	switch line {
	case "sat":
		s.Sat++
	case "unsat":
		s.Unsat++
	default:
		s.Unknown++
	}
	return line
}

// readSexp reads one balanced s-expression from the solver
func (s *lraSolver) readSexp() string {
	var sb strings.Builder
	depth, started := 0, false
	for {
		r, _, err := s.out.ReadRune()
		if err == io.EOF || err != nil {
			break
		}
		sb.WriteRune(r)
		if r == '(' {
			depth++
			started = true
		} else if r == ')' {
			depth--
		}
		if started && depth == 0 {
			break
		}
	}
	return sb.String()
}

func ratSMT(r *big.Rat) string {
	if r == nil || r.Sign() == 0 {
		return "0.0"
	}
	a := new(big.Rat).Abs(r)
	s := a.Num().String() + ".0"
	if !a.IsInt() {
		s = "(/ " + a.Num().String() + ".0 " + a.Denom().String() + ".0)"
	}
	if r.Sign() < 0 {
		return "(- " + s + ")"
	}
	return s
}

// parse a z3 real value: 1.0, (- 1.0), (/ 1.0 3.0), (- (/ 1.0 3.0))
func parseRat(tok []string, pos *int) *big.Rat {
	t := tok[*pos]
	*pos++
	if t != "(" {
		r, _ := new(big.Rat).SetString(strings.TrimSuffix(t, "?"))
		if r == nil {
			r = new(big.Rat)
		}
		return r
	}
	op := tok[*pos]
	*pos++
	var args []*big.Rat
	for tok[*pos] != ")" {
		args = append(args, parseRat(tok, pos))
	}
	*pos++
	switch op {
	case "-":
		if len(args) == 1 {
			return new(big.Rat).Neg(args[0])
		}
		return new(big.Rat).Sub(args[0], args[1])
	case "/":
		if args[1].Sign() == 0 {
			return new(big.Rat)
		}
		return new(big.Rat).Quo(args[0], args[1])
	case "+":
		return new(big.Rat).Add(args[0], args[1])
	case "*":
		return new(big.Rat).Mul(args[0], args[1])
	}
	return new(big.Rat)
}

func tokenize(s string) []string {
	s = strings.ReplaceAll(s, "(", " ( ")
	s = strings.ReplaceAll(s, ")", " ) ")
	return strings.Fields(s)
}

// dctAgree decides: for all real x, every k: |out_k(x) - sum_j cos(pi (2j+1) k / 2n) x_j| <= eps * ||x||_1, where out_k is the
// float kernel's output term read over the reals plus its rounding-error bound. Returns ok, or a witness vector.
type dctVerdict struct {
	ok       bool
	unknown  bool
	witness  []*big.Rat
	k        int
	note     string
	maxErr   float64 // largest rounding-error bound over the outputs
	maxCoefD float64 // largest |coefficient - cos| seen (float64 estimate, reported only)
	ops      int
}

func (m *Machine) dctAgree(in, out []*T, w int, eps, epsRound float64) (dctVerdict, error) {
	n := len(in)
	lc := &linCtx{n: n, w: w, vars: map[*T]int{}, memo: map[*T]*linForm{}}
	lc.u = math.Ldexp(1, -24)
	if w == 64 {
		lc.u = math.Ldexp(1, -53)
	}
	for j, v := range in {
		lc.vars[v] = j
	}
	forms := make([]*linForm, n)
	for k, t := range out {
		f, err := lc.of(t)
		if err != nil {
			return dctVerdict{}, fmt.Errorf("output %d: %v", k, err)
		}
		forms[k] = f
	}
	v := dctVerdict{ok: true, ops: lc.ops}
	if m.lra == nil {
		m.lra = newLRA()
	}
	s := m.lra
	s.send("(reset)")
	s.send("(set-option :timeout 60000)")
	var sum strings.Builder
	for j := 0; j < n; j++ {
		s.send(fmt.Sprintf("(declare-const x%d Real) (declare-const a%d Real) (assert (>= a%d x%d)) (assert (>= a%d (- x%d)))", j, j, j, j, j, j))
		fmt.Fprintf(&sum, " a%d", j)
	}
	s.send("(assert (<= (+" + sum.String() + ") 1.0))")
	const cosSlack = 4e-16 // |float64 cos - cos| <= 2 ulp at magnitude <= 1 (math.Cos error bound assumed), over the l1 unit ball
	for k := 0; k < n; k++ {
		f := forms[k]
		if f.err > v.maxErr {
			v.maxErr = f.err
		}
		budget := eps - cosSlack - 2e-29
		if f.err > epsRound {
			v.ok = false
			v.unknown = true
			v.note = fmt.Sprintf("the rounding-error bound of output %d (%.3g) exceeds the stated budget (%.3g)", k, f.err, epsRound)
			return v, nil
		}
		var terms []string
		for j := 0; j < n; j++ {
			d := new(big.Rat).SetFloat64(math.Cos(math.Pi * float64(2*j+1) * float64(k) / float64(2*n)))
			c := f.c[j]
			if c == nil {
				c = new(big.Rat)
			}
			diff := new(big.Rat).Sub(c, d)
			if df, _ := diff.Float64(); math.Abs(df) > v.maxCoefD {
				v.maxCoefD = math.Abs(df)
			}
			// the exact difference is rounded to a multiple of 2^-96 (the rounding, at most 2^-97 per unit of ||x||_1, is
			// taken off the budget): keeps the solver's bignum arithmetic small
			sc := new(big.Int).Lsh(big.NewInt(1), 96)
			num := new(big.Int).Mul(diff.Num(), sc)
			num.Quo(num, diff.Denom())
			diff = new(big.Rat).SetFrac(num, sc)
			if diff.Sign() != 0 {
				terms = append(terms, fmt.Sprintf("(* %s x%d)", ratSMT(diff), j))
			}
		}
		if len(terms) == 0 {
			continue
		}
		e := "(+ 0.0 " + strings.Join(terms, " ") + ")"
		b := ratSMT(new(big.Rat).SetFloat64(budget))
		s.send("(push 1)")
		s.send(fmt.Sprintf("(assert (or (> %s %s) (< %s (- %s))))", e, b, e, b))
		r := s.check()
		if r == "sat" {
			var names []string
			for j := 0; j < n; j++ {
				names = append(names, fmt.Sprintf("x%d", j))
			}
			s.send("(get-value (" + strings.Join(names, " ") + "))")
			s.w.Flush()
			tok := tokenize(s.readSexp())
			// ( ( x0 v ) ( x1 v ) ... )
			pos := 1
			wit := make([]*big.Rat, n)
			for j := 0; j < n && pos < len(tok); j++ {
				pos += 2 // "(" name
				wit[j] = parseRat(tok, &pos)
				pos++ // ")"
			}
			s.send("(pop 1)")
			v.ok, v.witness, v.k = false, wit, k
			v.note = fmt.Sprintf("output %d: largest |coefficient - cos| so far %.3g", k, v.maxCoefD)
			return v, nil
		}
		s.send("(pop 1)")
		if r != "unsat" {
			v.ok, v.unknown = false, true
			v.note = fmt.Sprintf("LRA query for output %d: %s", k, r)
			return v, nil
		}
	}
	return v, nil
}
