package main

// asmx - symbolic executor for the Plan 9 amd64/AVX assembly of imagehash/transforms32/asm_x86.s (Engine B).
// The file is parsed from /repo on every run. Vector lanes are 32-bit terms of the shared term layer; float lane
// operations build the same uninterpreted-function terms as the Go SSA machine (fp=uf), so that "asm lane == Go
// lane" is a term equality. General-purpose registers hold concrete integers or (region, offset) pointers; loops run
// with their concrete counters. Every load/store is recorded as a bounds obligation against its region.

import (
	"fmt"
	"go/token"
	"math"
	"os"
	"path/filepath"
	"regexp"
	"strconv"
	"strings"
)

type asmInstr struct {
	op   string
	args []string
	line int
}

type asmFunc struct {
	name   string
	frame  int
	instrs []asmInstr
	labels map[string]int
}

type asmFile struct {
	funcs  map[string]*asmFunc
	rodata map[string][]byte
}

type aval struct {
	ptr    bool
	region string
	v      int64
	sym    *T // symbolic 32-bit payload (a float moved through a general-purpose register)
}

type asmAccess struct {
	region string
	off    int64
	width  int
	store  bool
	line   int
	align  int
}

type asmState struct {
	f       *asmFile
	gpr     map[string]aval
	y       [16][8]*T
	mem     map[string]map[int64]*T // region -> byte offset (multiple of 4) -> 32-bit lane
	rlen    map[string]int64
	flagEq  bool
	access  []asmAccess
	steps   int
	fp      map[string]aval // FP argument slots
	written map[string]map[int64]bool
	bytes   map[string]bool // byte-granular regions (uint8 slices)
	retOff  int64         // FP offset of the result area (0: none)
	gprSym  map[string]*T // symbolic 32-bit values held in general-purpose registers (PEXTRD results)
}

var floatLit = regexp.MustCompile(`^\$\((-?[0-9.eE+-]+)\)$`)

func parseAsm(path string) (*asmFile, error) {
	b, err := os.ReadFile(path)
	if err != nil {
		return nil, err
	}
	af := &asmFile{funcs: map[string]*asmFunc{}, rodata: map[string][]byte{}}
	var cur *asmFunc
	dataRe := regexp.MustCompile(`^DATA\s+(\w+)<>\+(\d+)\(SB\)/(\d+),\s*(.+)$`)
	textRe := regexp.MustCompile(`^TEXT\s+·(\w+)\(SB\),[^$]*\$(\d+)(?:-(\d+))?`)
	for ln, raw := range strings.Split(string(b), "\n") {
		line := raw
		if i := strings.Index(line, "//"); i >= 0 {
			line = line[:i]
		}
		line = strings.TrimSpace(line)
		if line == "" || strings.HasPrefix(line, "#") || strings.HasPrefix(line, "GLOBL") {
			continue
		}
		if m := dataRe.FindStringSubmatch(line); m != nil {
			off, _ := strconv.Atoi(m[2])
			size, _ := strconv.Atoi(m[3])
			buf := af.rodata[m[1]]
			for len(buf) < off+size {
				buf = append(buf, 0)
			}
			val := strings.TrimSpace(m[4])
			var u uint64
			if fm := floatLit.FindStringSubmatch(val); fm != nil {
				f, err := strconv.ParseFloat(fm[1], 64)
				if err != nil {
					return nil, fmt.Errorf("line %d: float literal %q", ln+1, val)
				}
				if size == 4 {
					u = uint64(math.Float32bits(float32(f)))
				} else {
					u = math.Float64bits(f)
				}
			} else {
				v, err := strconv.ParseInt(strings.TrimPrefix(val, "$"), 0, 64)
				if err != nil {
					uv, err2 := strconv.ParseUint(strings.TrimPrefix(val, "$"), 0, 64)
					if err2 != nil {
						return nil, fmt.Errorf("line %d: data literal %q", ln+1, val)
					}
					v = int64(uv)
				}
				u = uint64(v)
			}
			for k := 0; k < size; k++ {
				buf[off+k] = byte(u >> (8 * uint(k)))
			}
			af.rodata[m[1]] = buf
			continue
		}
		if m := textRe.FindStringSubmatch(line); m != nil {
			fr, _ := strconv.Atoi(m[2])
			cur = &asmFunc{name: m[1], frame: fr, labels: map[string]int{}}
			af.funcs[m[1]] = cur
			continue
		}
		if cur == nil {
			continue
		}
		if strings.HasSuffix(line, ":") {
			cur.labels[strings.TrimSuffix(line, ":")] = len(cur.instrs)
			continue
		}
		fs := strings.Fields(line)
		op := fs[0]
		rest := strings.TrimSpace(line[len(op):])
		var args []string
		if rest != "" {
			depth := 0
			last := 0
			for i, c := range rest {
				switch c {
				case '(':
					depth++
				case ')':
					depth--
				case ',':
					if depth == 0 {
						args = append(args, strings.TrimSpace(rest[last:i]))
						last = i + 1
					}
				}
			}
			args = append(args, strings.TrimSpace(rest[last:]))
		}
		cur.instrs = append(cur.instrs, asmInstr{op: op, args: args, line: ln + 1})
	}
	return af, nil
}

type asmErr struct{ msg string }

func (s *asmState) fail(in asmInstr, format string, a ...interface{}) {
	panic(asmErr{fmt.Sprintf("asm line %d (%s %s): %s", in.line, in.op, strings.Join(in.args, ", "), fmt.Sprintf(format, a...))})
}

var memRe = regexp.MustCompile(`^(-?\w*)\((\w+)\)(?:\((\w+)\*(\d)\))?$`)
var symRe = regexp.MustCompile(`^(\w+)<>\+(\d+)\(SB\)$`)
var fpRe = regexp.MustCompile(`^(\w+)\+(\d+)\(FP\)(?:\((\w+)\*(\d)\))?$`)

func isVecReg(s string) (idx int, ymm bool, ok bool) {
	if len(s) >= 2 && (s[0] == 'X' || s[0] == 'Y') {
		n, err := strconv.Atoi(s[1:])
		if err == nil && n >= 0 && n < 16 {
			return n, s[0] == 'Y', true
		}
	}
	return 0, false, false
}

func isGPR(s string) bool {
	switch s {
	case "AX", "BX", "CX", "DX", "SI", "DI", "BP", "R8", "R9", "R10", "R11", "R12", "R13", "R14", "R15":
		return true
	}
	return false
}

func (s *asmState) imm(in asmInstr, a string) int64 {
	if !strings.HasPrefix(a, "$") {
		s.fail(in, "immediate expected: %s", a)
	}
	v, err := strconv.ParseInt(a[1:], 0, 64)
	if err != nil {
		s.fail(in, "immediate %s", a)
	}
	return v
}

// addr resolves a memory operand to (region, byte offset); vector-indexed operands return the index register too.
func (s *asmState) addr(in asmInstr, a string) (region string, off int64, vidx int, vscale int64) {
	vidx = -1
	if m := symRe.FindStringSubmatch(a); m != nil {
		o, _ := strconv.Atoi(m[2])
		return "rodata:" + m[1], int64(o), -1, 0
	}
	if m := fpRe.FindStringSubmatch(a); m != nil {
		o, _ := strconv.Atoi(m[2])
		extra := int64(0)
		if m[3] != "" {
			sc, _ := strconv.Atoi(m[4])
			ix, ok := s.gpr[m[3]]
			if !ok || ix.ptr || ix.sym != nil {
				s.fail(in, "index register %s", m[3])
			}
			extra = ix.v * int64(sc)
		}
		if int64(o) >= s.retOff && s.retOff > 0 {
			return "ret", int64(o) - s.retOff + extra, -1, 0
		}
		return "fp", int64(o) + extra, -1, 0
	}
	m := memRe.FindStringSubmatch(a)
	if m == nil {
		s.fail(in, "memory operand %s", a)
	}
	var disp int64
	if m[1] != "" {
		d, err := strconv.ParseInt(m[1], 0, 64)
		if err != nil {
			s.fail(in, "displacement %s", m[1])
		}
		disp = d
	}
	if m[2] == "SP" {
		region, off = "stack", disp
	} else {
		b, ok := s.gpr[m[2]]
		if !ok || !b.ptr {
			s.fail(in, "base register %s is not a pointer", m[2])
		}
		region, off = b.region, b.v+disp
	}
	if m[3] != "" {
		sc, _ := strconv.Atoi(m[4])
		if vi, _, ok := isVecReg(m[3]); ok {
			return region, off, vi, int64(sc)
		}
		ix, ok := s.gpr[m[3]]
		if !ok || ix.ptr {
			s.fail(in, "index register %s", m[3])
		}
		off += ix.v * int64(sc)
	}
	return region, off, -1, 0
}

func (s *asmState) loadLane(in asmInstr, region string, off int64) *T {
	s.access = append(s.access, asmAccess{region: region, off: off, width: 4, line: in.line})
	if strings.HasPrefix(region, "rodata:") {
		b := s.f.rodata[strings.TrimPrefix(region, "rodata:")]
		if off < 0 || off+4 > int64(len(b)) {
			s.fail(in, "rodata access out of range")
		}
		return BV(32, uint64(b[off])|uint64(b[off+1])<<8|uint64(b[off+2])<<16|uint64(b[off+3])<<24)
	}
	if off%4 != 0 {
		s.fail(in, "unaligned dword access at offset %d of %s (not modelled)", off, region)
	}
	if v, ok := s.mem[region][off]; ok {
		return v
	}
	if region == "stack" || region == "ret" {
		return BV(32, 0xdeadbeef) // uninitialised
	}
	if strings.HasPrefix(region, "arg") {
		// a load outside the argument slice: arbitrary contents; the access is already recorded and becomes an
		// asm-oob finding
		return Var(fmt.Sprintf("oob!%s!%d", region, off), 32)
	}
	s.fail(in, "load from unmapped %s+%d", region, off)
	return nil
}

func (s *asmState) storeLane(in asmInstr, region string, off int64, v *T) {
	s.access = append(s.access, asmAccess{region: region, off: off, width: 4, store: true, line: in.line})
	if off%4 != 0 {
		s.fail(in, "unaligned dword store at offset %d of %s (not modelled)", off, region)
	}
	if s.mem[region] == nil {
		s.mem[region] = map[int64]*T{}
	}
	s.mem[region][off] = v
	if s.written[region] == nil {
		s.written[region] = map[int64]bool{}
	}
	s.written[region][off] = true
}

func fop(op token.Token, x, y *T) *T { return (&Machine{}).floatOp(op, 32, x, y).(*T) }

// srcLanes reads n lanes from a register or memory operand.
func (s *asmState) srcLanes(in asmInstr, a string, n int) []*T {
	if i, _, ok := isVecReg(a); ok {
		r := make([]*T, n)
		copy(r, s.y[i][:n])
		return r
	}
	region, off, vi, _ := s.addr(in, a)
	if vi >= 0 {
		s.fail(in, "vector index not allowed here")
	}
	r := make([]*T, n)
	for k := 0; k < n; k++ {
		r[k] = s.loadLane(in, region, off+int64(4*k))
	}
	return r
}

// setVec writes lanes to a vector register. vex: upper lanes zeroed (VEX.128) ; legacy SSE: preserved.
func (s *asmState) setVec(in asmInstr, a string, lanes []*T, vex bool) {
	i, ymm, ok := isVecReg(a)
	if !ok {
		s.fail(in, "vector register expected: %s", a)
	}
	n := 4
	if ymm {
		n = 8
	}
	if len(lanes) != n {
		s.fail(in, "lane count %d for %s", len(lanes), a)
	}
	copy(s.y[i][:n], lanes)
	if vex && !ymm {
		for k := 4; k < 8; k++ {
			s.y[i][k] = BV(32, 0)
		}
	}
}

func lanesOf(a string) int {
	if _, ymm, ok := isVecReg(a); ok && ymm {
		return 8
	}
	return 4
}

func (s *asmState) width(in asmInstr) int {
	for _, a := range in.args {
		if _, ymm, ok := isVecReg(a); ok {
			if ymm {
				return 8
			}
			return 4
		}
	}
	s.fail(in, "no vector register operand")
	return 0
}

func (s *asmState) run(fn *asmFunc) {
	pc := 0
	for pc < len(fn.instrs) {
		in := fn.instrs[pc]
		s.steps++
		if s.steps > 3000000 {
			s.fail(in, "step budget exceeded")
		}
		pc++
		A := in.args
		switch in.op {
		case "RET":
			return
		case "JMP":
			t, ok := fn.labels[A[0]]
			if !ok {
				s.fail(in, "label")
			}
			pc = t
		case "JE":
			if s.flagEq {
				t, ok := fn.labels[A[0]]
				if !ok {
					s.fail(in, "label")
				}
				pc = t
			}
		case "CMPQ", "CMPL":
			x := s.gprOrImm(in, A[0])
			y := s.gprOrImm(in, A[1])
			if x.sym != nil || y.sym != nil {
				s.fail(in, "comparison of a symbolic register")
			}
			s.flagEq = x.ptr == y.ptr && x.v == y.v && x.region == y.region
		case "MOVQ", "MOVL":
			if isGPR(A[1]) {
				if isGPR(A[0]) || strings.HasPrefix(A[0], "$") {
					v := s.gprOrImm(in, A[0])
					if in.op == "MOVL" && !v.ptr {
						v.v = int64(uint32(v.v))
					}
					s.gpr[A[1]] = v
				} else {
					region, off, _, _ := s.addr(in, A[0])
					if region == "fp" {
						v, ok := s.fp[fmt.Sprint(off)]
						if !ok {
							s.fail(in, "unknown FP slot %d", off)
						}
						s.gpr[A[1]] = v
					} else {
						t := s.loadLane(in, region, off)
						if !t.IsC {
							s.gpr[A[1]] = aval{sym: t}
						} else {
							s.gpr[A[1]] = aval{v: int64(t.C)}
						}
					}
				}
			} else {
				// store a GPR to memory (MOVL only: 32-bit)
				v := s.gprOrImm(in, A[0])
				region, off, _, _ := s.addr(in, A[1])
				if v.ptr {
					s.fail(in, "pointer stored to memory")
				}
				if v.sym != nil {
					s.storeLane(in, region, off, v.sym)
				} else {
					s.storeLane(in, region, off, BV(32, uint64(uint32(v.v))))
				}
			}
		case "ADDQ", "ADDL":
			x := s.gprOrImm(in, A[0])
			d := s.gpr[A[1]]
			if x.ptr {
				s.fail(in, "pointer addend")
			}
			d.v += x.v
			s.gpr[A[1]] = d
		case "INCQ", "INCL":
			d := s.gpr[A[0]]
			d.v++
			s.gpr[A[0]] = d
		case "IMULQ", "IMULL":
			x := s.gprOrImm(in, A[0])
			d := s.gpr[A[len(A)-1]]
			if len(A) == 3 {
				y := s.gprOrImm(in, A[1])
				d = aval{v: x.v * y.v}
			} else {
				d.v *= x.v
			}
			s.gpr[A[len(A)-1]] = d
		case "XORQ", "XORL":
			if A[0] == A[1] {
				s.gpr[A[1]] = aval{}
			} else {
				s.fail(in, "general xor")
			}
		case "VZEROUPPER":
			for i := range s.y {
				for k := 4; k < 8; k++ {
					s.y[i][k] = BV(32, 0)
				}
			}
		case "VZEROALL":
			for i := range s.y {
				for k := 0; k < 8; k++ {
					s.y[i][k] = BV(32, 0)
				}
			}
		case "VMOVUPS", "MOVUPS", "VMOVAPS":
			if _, _, ok := isVecReg(A[1]); ok {
				n := lanesOf(A[1])
				s.setVec(in, A[1], s.srcLanes(in, A[0], n), in.op[0] == 'V')
			} else {
				n := lanesOf(A[0])
				src := s.srcLanes(in, A[0], n)
				region, off, _, _ := s.addr(in, A[1])
				if in.op == "VMOVAPS" {
					s.access = append(s.access, asmAccess{region: region, off: off, width: 4 * n, store: true, line: in.line, align: 4 * n})
				}
				for k := 0; k < n; k++ {
					s.storeLane(in, region, off+int64(4*k), src[k])
				}
			}
		case "VADDPS", "VSUBPS", "VDIVPS", "VMULPS":
			n := lanesOf(A[2])
			x := s.srcLanes(in, A[1], n) // first source
			y := s.srcLanes(in, A[0], n) // second source
			op := map[string]token.Token{"VADDPS": token.ADD, "VSUBPS": token.SUB, "VDIVPS": token.QUO, "VMULPS": token.MUL}[in.op]
			r := make([]*T, n)
			for k := range r {
				r[k] = fop(op, x[k], y[k])
			}
			s.setVec(in, A[2], r, true)
		case "ADDPS", "DIVPS", "SUBPS", "MULPS":
			x := s.srcLanes(in, A[1], 4)
			y := s.srcLanes(in, A[0], 4)
			op := map[string]token.Token{"ADDPS": token.ADD, "SUBPS": token.SUB, "DIVPS": token.QUO, "MULPS": token.MUL}[in.op]
			r := make([]*T, 4)
			for k := range r {
				r[k] = fop(op, x[k], y[k])
			}
			s.setVec(in, A[1], r, false)
		case "PSHUFD":
			im := s.imm(in, A[0])
			x := s.srcLanes(in, A[1], 4)
			r := make([]*T, 4)
			for k := 0; k < 4; k++ {
				r[k] = x[(im>>(2*uint(k)))&3]
			}
			s.setVec(in, A[2], r, false)
		case "VSHUFPS":
			im := s.imm(in, A[0])
			n := lanesOf(A[3])
			y := s.srcLanes(in, A[1], n) // src2
			x := s.srcLanes(in, A[2], n) // src1
			r := make([]*T, n)
			for h := 0; h < n; h += 4 {
				r[h+0] = x[h+int((im>>0)&3)]
				r[h+1] = x[h+int((im>>2)&3)]
				r[h+2] = y[h+int((im>>4)&3)]
				r[h+3] = y[h+int((im>>6)&3)]
			}
			s.setVec(in, A[3], r, true)
		case "VUNPCKLPS", "VUNPCKHPS", "VPUNPCKLDQ", "VPUNPCKHDQ":
			n := lanesOf(A[2])
			y := s.srcLanes(in, A[0], n) // src2
			x := s.srcLanes(in, A[1], n) // src1
			r := make([]*T, n)
			hi := strings.Contains(in.op, "CKH")
			for h := 0; h < n; h += 4 {
				o := 0
				if hi {
					o = 2
				}
				r[h+0], r[h+1], r[h+2], r[h+3] = x[h+o], y[h+o], x[h+o+1], y[h+o+1]
			}
			s.setVec(in, A[2], r, true)
		case "VPERM2F128":
			im := s.imm(in, A[0])
			y := s.srcLanes(in, A[1], 8) // src2
			x := s.srcLanes(in, A[2], 8) // src1
			sel := func(c int64) []*T {
				if c&8 != 0 {
					return []*T{BV(32, 0), BV(32, 0), BV(32, 0), BV(32, 0)}
				}
				switch c & 3 {
				case 0:
					return x[0:4]
				case 1:
					return x[4:8]
				case 2:
					return y[0:4]
				}
				return y[4:8]
			}
			r := append(append([]*T{}, sel(im&15)...), sel((im>>4)&15)...)
			s.setVec(in, A[3], r, true)
		case "VPERMD", "VPERMPS":
			src := s.srcLanes(in, A[0], 8)
			idx := s.srcLanes(in, A[1], 8)
			r := make([]*T, 8)
			for k := 0; k < 8; k++ {
				if !idx[k].IsC {
					s.fail(in, "symbolic permutation index")
				}
				r[k] = src[idx[k].C&7]
			}
			s.setVec(in, A[2], r, true)
		case "VBLENDPS":
			im := s.imm(in, A[0])
			n := lanesOf(A[3])
			y := s.srcLanes(in, A[1], n)
			x := s.srcLanes(in, A[2], n)
			r := make([]*T, n)
			for k := 0; k < n; k++ {
				if im>>uint(k)&1 == 1 {
					r[k] = y[k]
				} else {
					r[k] = x[k]
				}
			}
			s.setVec(in, A[3], r, true)
		case "VPSRLDQ", "VPSLLDQ":
			im := s.imm(in, A[0])
			if im%4 != 0 {
				s.fail(in, "byte shift not a multiple of 4")
			}
			d := int(im / 4)
			n := lanesOf(A[2])
			x := s.srcLanes(in, A[1], n)
			r := make([]*T, n)
			for h := 0; h < n; h += 4 {
				for k := 0; k < 4; k++ {
					j := k + d
					if in.op == "VPSLLDQ" {
						j = k - d
					}
					if j >= 0 && j < 4 {
						r[h+k] = x[h+j]
					} else {
						r[h+k] = BV(32, 0)
					}
				}
			}
			s.setVec(in, A[2], r, true)
		case "VPMOVZXBD":
			n := lanesOf(A[1])
			region, off, _, _ := s.addr(in, A[0])
			if !strings.HasPrefix(region, "rodata:") {
				if !s.bytes[region] {
					s.fail(in, "byte load from a non-byte region")
				}
				s.access = append(s.access, asmAccess{region: region, off: off, width: n, line: in.line})
				r := make([]*T, n)
				for k := 0; k < n; k++ {
					if v, ok := s.mem[region][off+int64(k)]; ok {
						r[k] = ZExt(32, v)
					} else {
						r[k] = BV(32, 0xa5) // outside the slice: the access is reported as an obligation failure
					}
				}
				s.setVec(in, A[1], r, true)
				break
			}
			b := s.f.rodata[strings.TrimPrefix(region, "rodata:")]
			s.access = append(s.access, asmAccess{region: region, off: off, width: n, line: in.line})
			r := make([]*T, n)
			for k := 0; k < n; k++ {
				if off+int64(k) >= int64(len(b)) {
					s.fail(in, "rodata byte access out of range")
				}
				r[k] = BV(32, uint64(b[off+int64(k)]))
			}
			s.setVec(in, A[1], r, true)
		case "VPBROADCASTD":
			n := lanesOf(A[1])
			var v *T
			if i, _, ok := isVecReg(A[0]); ok {
				v = s.y[i][0]
			} else {
				region, off, _, _ := s.addr(in, A[0])
				v = s.loadLane(in, region, off)
			}
			r := make([]*T, n)
			for k := range r {
				r[k] = v
			}
			s.setVec(in, A[1], r, true)
		case "VPADDD", "VPSUBD", "VPMULLD":
			n := lanesOf(A[2])
			y := s.srcLanes(in, A[0], n)
			x := s.srcLanes(in, A[1], n)
			op := map[string]string{"VPADDD": "bvadd", "VPSUBD": "bvsub", "VPMULLD": "bvmul"}[in.op]
			r := make([]*T, n)
			for k := range r {
				r[k] = Bin(op, x[k], y[k])
			}
			s.setVec(in, A[2], r, true)
		case "VPSUBQ":
			n := lanesOf(A[2])
			y := s.srcLanes(in, A[0], n)
			x := s.srcLanes(in, A[1], n)
			r := make([]*T, n)
			for k := 0; k < n; k += 2 {
				d := Bin("bvsub", Concat(x[k+1], x[k]), Concat(y[k+1], y[k]))
				r[k], r[k+1] = Extract(31, 0, d), Extract(63, 32, d)
			}
			s.setVec(in, A[2], r, true)
		case "VPSRAD", "VPSRLD", "VPSLLD":
			im := s.imm(in, A[0])
			n := lanesOf(A[2])
			x := s.srcLanes(in, A[1], n)
			r := make([]*T, n)
			op := map[string]string{"VPSRAD": "bvashr", "VPSRLD": "bvlshr", "VPSLLD": "bvshl"}[in.op]
			for k := range r {
				if im >= 32 && in.op != "VPSRAD" {
					r[k] = BV(32, 0)
				} else {
					r[k] = Bin(op, x[k], BV(32, uint64(min(im, 31))))
				}
			}
			s.setVec(in, A[2], r, true)
		case "VPAND", "VPOR", "VPXOR", "VANDPS", "VORPS", "VXORPS", "VPANDN", "VANDNPS":
			n := lanesOf(A[2])
			y := s.srcLanes(in, A[0], n)
			x := s.srcLanes(in, A[1], n)
			r := make([]*T, n)
			for k := range r {
				switch in.op {
				case "VPAND", "VANDPS":
					r[k] = Bin("bvand", x[k], y[k])
				case "VPOR", "VORPS":
					r[k] = Bin("bvor", x[k], y[k])
				case "VPXOR", "VXORPS":
					r[k] = Bin("bvxor", x[k], y[k])
				default: // ANDN: (NOT src1) AND src2
					r[k] = Bin("bvand", Bin("bvxor", x[k], BV(32, 0xffffffff)), y[k])
				}
			}
			s.setVec(in, A[2], r, true)
		case "VCVTDQ2PS":
			n := lanesOf(A[1])
			x := s.srcLanes(in, A[0], n)
			r := make([]*T, n)
			for k := range r {
				if x[k].IsC {
					r[k] = BV(32, uint64(math.Float32bits(float32(int32(uint32(x[k].C))))))
				} else {
					r[k] = App("sitof32_32", 32, x[k])
				}
			}
			s.setVec(in, A[1], r, true)
		case "VPCMPEQD":
			n := lanesOf(A[2])
			y := s.srcLanes(in, A[0], n)
			x := s.srcLanes(in, A[1], n)
			r := make([]*T, n)
			for k := range r {
				r[k] = Ite(Eq(x[k], y[k]), BV(32, 0xffffffff), BV(32, 0))
			}
			s.setVec(in, A[2], r, true)
		case "VPGATHERDD":
			// VPGATHERDD mask, mem(base)(idx*scale), dst
			n := lanesOf(A[2])
			mask := s.srcLanes(in, A[0], n)
			region, off, vi, sc := s.addr(in, A[1])
			if vi < 0 {
				s.fail(in, "gather without vector index")
			}
			di, _, _ := isVecReg(A[2])
			for k := 0; k < n; k++ {
				if !mask[k].IsC {
					s.fail(in, "symbolic gather mask")
				}
				if mask[k].C>>31 == 1 {
					ix := s.y[vi][k]
					if !ix.IsC {
						s.fail(in, "symbolic gather index")
					}
					s.y[di][k] = s.loadLane(in, region, off+int64(int32(uint32(ix.C)))*sc)
				}
			}
			mi, _, _ := isVecReg(A[0])
			for k := 0; k < 8; k++ {
				s.y[mi][k] = BV(32, 0)
			}
		case "PEXTRD":
			im := s.imm(in, A[0])
			x := s.srcLanes(in, A[1], 4)
			v := x[im&3]
			if isGPR(A[2]) {
				if v.IsC {
					s.gpr[A[2]] = aval{v: int64(v.C)}
				} else {
					s.gpr[A[2]] = aval{sym: v}
				}
			} else {
				region, off, _, _ := s.addr(in, A[2])
				s.storeLane(in, region, off, v)
			}
		default:
			s.fail(in, "unsupported mnemonic")
		}
	}
}

func (s *asmState) gprOrImm(in asmInstr, a string) aval {
	if strings.HasPrefix(a, "$") {
		return aval{v: s.imm(in, a)}
	}
	if isGPR(a) {
		return s.gpr[a]
	}
	s.fail(in, "register or immediate expected: %s", a)
	return aval{}
}

func loadAsm() (*asmFile, error) {
	return parseAsm(filepath.Join(repoDir, "imagehash/transforms32/asm_x86.s"))
}

func newAsmState(f *asmFile) *asmState {
	s := &asmState{f: f, gpr: map[string]aval{}, mem: map[string]map[int64]*T{}, rlen: map[string]int64{}, fp: map[string]aval{}, written: map[string]map[int64]bool{}}
	s.gprSym = map[string]*T{}
	s.bytes = map[string]bool{}
	for i := range s.y {
		for k := range s.y[i] {
			s.y[i][k] = BV(32, 0)
		}
	}
	return s
}
