package main

import (
	"go/types"

	"golang.org/x/tools/go/ssa"
)

type outcome struct {
	cond *T
	val  Value
	pan  bool
	msg  string
	fns  []string
}
type collector struct {
	outs    []outcome
	decBase int
}

var pureCache = map[*ssa.Function]int{} // 0 unknown, 1 pure, 2 impure, 3 in progress

func localAddr(v ssa.Value, depth int) bool {
	if depth > 8 {
		return false
	}
	switch x := v.(type) {
	case *ssa.Alloc:
		return true
	case *ssa.FieldAddr:
		return localAddr(x.X, depth+1)
	case *ssa.IndexAddr:
		if _, ok := x.X.Type().Underlying().(*types.Pointer); ok {
			return localAddr(x.X, depth+1)
		}
		return false
	}
	return false
}

func (m *Machine) isPure(fn *ssa.Function) bool {
	switch pureCache[fn] {
	case 1:
		return true
	case 2, 3:
		return false
	}
	if fn.Blocks == nil || len(fn.FreeVars) > 0 || m.findIntr(fn) != nil {
		pureCache[fn] = 2
		return false
	}
	pureCache[fn] = 3
	pure := true
	nInstr := 0
	for _, b := range fn.Blocks {
		for _, in := range b.Instrs {
			nInstr++
			switch x := in.(type) {
			case *ssa.Store:
				if !localAddr(x.Addr, 0) {
					pure = false
				}
			case *ssa.Alloc:
				// a heap object created by the callee would be rolled back with the sub-search: not mergeable
				if x.Heap {
					pure = false
				}
			case *ssa.Convert:
				if _, ok := x.Type().Underlying().(*types.Slice); ok {
					pure = false
				}
			case *ssa.MapUpdate, *ssa.Defer, *ssa.Go, *ssa.Send, *ssa.RunDefers, *ssa.MakeClosure, *ssa.MakeMap, *ssa.MakeSlice:
				pure = false
			case *ssa.Call:
				if b, ok := x.Call.Value.(*ssa.Builtin); ok {
					switch b.Name() {
					case "len", "cap", "min", "max", "ssa:wrapnilchk":
					default:
						pure = false
					}
				} else if callee := x.Call.StaticCallee(); callee != nil && !x.Call.IsInvoke() {
					if !m.isPure(callee) {
						pure = false
					}
				} else {
					pure = false
				}
			}
			if !pure {
				break
			}
		}
		if !pure {
			break
		}
	}
	if pure {
		pureCache[fn] = 1
	} else {
		pureCache[fn] = 2
	}
	return pure
}

func (m *Machine) pushDecision(lit *T) {
	m.decisions = append(m.decisions, lit)
	m.trail = append(m.trail, func() { m.decisions = m.decisions[:len(m.decisions)-1] })
}

// callPure explores all paths of a pure callee and merges its results. Returns false if merging failed.
func (m *Machine) callPure(fn *ssa.Function, args []Value, call ssa.Instruction) (ok bool) {
	col := &collector{decBase: len(m.decisions)}
	mark := len(m.trail)
	savedPan := m.pan
	fr := &Frame{fn: fn, block: fn.Blocks[0], regs: make(map[ssa.Value]Value, 16), call: call, collect: col}
	for i, p := range fn.Params {
		fr.regs[p] = args[i]
	}
	m.pushFrame(fr)
	ps := m.pathStep
	paths := m.Paths
	m.Explore()
	m.Paths = paths
	m.pathStep = ps
	m.undo(mark)
	m.pan = savedPan
	m.PureCalls++
	// merge
	var panCond *T = BoolC(false)
	var panMsg string
	var panFns []string
	var res Value
	defer func() {
		if r := recover(); r != nil {
			if _, isU := r.(unmergeable); isU {
				ok = false
				return
			}
			panic(r)
		}
	}()
	for i := len(col.outs) - 1; i >= 0; i-- {
		o := col.outs[i]
		if o.pan {
			panCond = Or(panCond, o.cond)
			panMsg = o.msg
			panFns = append(panFns, o.fns...)
			continue
		}
		if res == nil {
			res = o.val
			if res == nil {
				res = Tuple{}
			}
		} else {
			ov := o.val
			if ov == nil {
				ov = Tuple{}
			}
			res = mergeVal(o.cond, ov, res)
		}
	}
	if !panCond.False() {
		if m.decide(panCond) {
			if call != nil && call.Pos().IsValid() {
				m.curPos = call.Pos()
			}
			m.pendingFns = append([]string{fn.String()}, panFns...)
			m.raiseRuntime(panMsg + " (in " + fn.String() + ")")
		}
	}
	if res == nil {
		// all outcomes panicked or were infeasible
		panic(pathEnd{"pure: no outcome"})
	}
	caller := m.top()
	if v, isV := call.(ssa.Value); isV {
		if t, isT := res.(Tuple); isT && len(t) == 0 {
			m.setReg(caller, v, nil)
		} else {
			m.setReg(caller, v, res)
		}
	}
	m.advance(caller)
	return true
}

func mergeVal(c *T, a, b Value) Value {
	if ta, ok := a.(Tuple); ok {
		tb := b.(Tuple)
		r := make(Tuple, len(ta))
		for i := range ta {
			r[i] = mergeVal(c, ta[i], tb[i])
		}
		return r
	}
	return iteValue(c, a, b)
}
