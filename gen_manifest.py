#!/usr/bin/env python3
# Regenerates /verif/MANIFEST.json from the table below (kept next to the machinery so the two stay in step).
import json
V="/verif/bin/verif"
LEVELS={
 "C09":("proof","All 2^192 values of the 24-byte header are solver variables: imagetype.Buf is executed symbolically from its SSA and compared with an independently written ordered signature table; Scan/ScanBuf/ReadAt are executed over the stream model for every stream length <= 40 and every terminal error. unsat = holds for the whole header domain (no bound on the header; suffix/stream lengths bounded as stated in evidence).","8 C09","symbolic execution of go/ssa + z3 (QF_UFBV), whole-domain equivalence with a signature table"),
 "C12":("model_checking","Bounded symbolic execution of tiff.ScanTiffHeader over the real bufio.Reader: every prefix of 0..9 (thorough 0..12) arbitrary bytes before the first signature, all header contents; every signature-free stream up to 34/37 bytes. Outside the bound nothing is claimed.","8 C12","bounded symbolic execution of go/ssa + z3"),
 "C16":("model_checking","Each value type's value is a full-width solver variable (or is case-split exhaustively where integer formatting divides by constants); round-trip equalities, Msgsize bound and totality of every text/binary/MessagePack decoder on arbitrary byte strings up to 48/64 bytes are decided by z3. Decimal float text round trips are outside the claim (strconv float routines uninterpreted).","8 C16","symbolic execution of go/ssa + z3; exhaustive case split for ExposureBias"),
 "C17":("proof","Every value of each enumeration's underlying integer type is a solver variable; the stringer's SSA (index tables, maps, switches) is executed symbolically; run-time checks must be unsatisfiable and the result must equal the independently documented name / fallback. Finite domains are covered completely.","8 C17","symbolic execution of go/ssa + z3 over the whole integer domain"),
 "C03":("model_checking","Forward-layout Exif skeletons (concrete structure) with every field value a full-width solver variable are decoded symbolically through the real reader; each reported field is compared with an independently written Exif/TIFF spec expression; unsat = exact for every value inside the skeleton family.","8 C03","skeleton-based symbolic execution of go/ssa + z3"),
 "C07":("model_checking","Entry-decoder lemma over all 2^96 IFD entries (II bytes vs field-wise byte-swapped MM twin) plus paired II/MM end-to-end decodes of one-entry skeletons with symbolic values.","8 C07","relational symbolic execution (II vs MM) + z3"),
 "C08":("model_checking","Self-composition: the same symbolic stream is decoded through a full-delivery reader and through a reader whose first three reads deliver an arbitrary legal count; results must be equal. Only the entry points that call Read directly are covered; the bufio-based ones rely on bufio's contract (assumed).","8 C08","relational symbolic execution (full vs chunked reads) + z3"),
 "C10":("model_checking","JPEG marker sequences with concrete layout and arbitrary payload bytes are scanned symbolically over the real bufio/LimitedReader; callback arguments, bytes readable inside the callbacks and resumption offsets are compared with the harness's own layout arithmetic.","8 C10","skeleton-based symbolic execution of go/ssa + z3"),
 "C11":("model_checking","One-step lemmas for every box operation from an arbitrary (not necessarily consistent) chain of nested boxes with the argument over the whole int range, plus framing/payload obligations on CR3 box trees with arbitrary payload bytes.","8 C11","inductive-step symbolic execution of go/ssa + z3"),
}
NOTE="Trusted base: go/ssa (x/tools v0.29.0), z3 4.8.12, the gosmt symbolic machine and its environment models (DESIGN.md section 5: stream model, sync.Pool, zerolog, opaque errors/fmt, uninterpreted time/float routines). Every reported violation is first replayed natively through `go test -overlay` on the real code; sampled path models are replayed too (traces_validated_against_impl)."
NA={
 "C05":"goroutine interleavings over sync.Pool/RWMutex/unsynchronised package variables cannot be encoded by sequential symbolic execution + SMT within reach (DESIGN.md section 9)",
}
props=[json.loads(l) for l in open('/verif/properties.jsonl')]
checks=[]; na=[]
for p in props:
    i=p["id"]
    if i in LEVELS:
        cat,text,ref,tech=LEVELS[i]
        checks.append({"property_id":i,"quick_cmd":f"{V} check {i} --tier quick","thorough_cmd":f"{V} check {i} --tier thorough","evidence_file":f"/verif/evidence/{i}.json","replay_cmd_template":f"{V} replay {{path}}","engine":"gosmt","level_claimed":{"category":cat,"text":text,"design_ref":"DESIGN.md section "+ref},"level_note":NOTE,"technique":tech})
    else:
        na.append({"property_id":i,"reason":NA.get(i,"check not built yet (implementation in progress, see DESIGN.md section 13)")})
m={"version":1,
 "setup_cmd":"cd /verif/gosmt && GOFLAGS=-mod=mod GOPROXY=off GOSUMDB=off GOTOOLCHAIN=local go build -o /verif/bin/verif .",
 "hooks":{"guard":"verif","enable":"no source hooks: harness files are injected through go/packages and `go test -overlay` overlays; /repo is never written by a check","baseline_off_cmd":"cd /repo && GOFLAGS=-mod=mod GOPROXY=off go test -vet=off -count=1 -timeout 25m ./...","source_commits":[],"add_only":True},
 "engines":[{"name":"gosmt","path":"/verif/gosmt","serves_properties":sorted(LEVELS),"kind_free_text":"symbolic executor for Go SSA (go/ssa) emitting SMT-LIB2 (QF_UFBV) to a persistent z3 process per worker; harnesses are overlay files under /verif/harness; counterexamples are replayed natively"}],
 "checks":checks,"not_applicable":na,
 "notes":"Exit codes of a check: 0 held within the stated bounds; 1 reproduced violation (VIOLATION line); 2 inconclusive (time/path limit, solver unknown, unsupported construct: reduced bound, no verdict); 3 broken machinery (encoding mismatch, vacuous harness, build error)."}
json.dump(m,open('/verif/MANIFEST.json','w'),indent=1)
