#!/bin/bash
# usage: seed_eval.sh <property> <worktree> <pkgdir-of-demo> [check args...]
# confirms a seeded change (demo fails with it, passes without), stores it under /verif/seeded/, applies it to /repo,
# runs the property's check and undoes it.
export GOFLAGS=-mod=mod GOPROXY=off GOSUMDB=off GOTOOLCHAIN=local
ID=$1; WT=$2; PKG=$3; shift 3
OUT=/verif/seeded/$ID$SFX; mkdir -p $OUT   # SFX: suffix for a further change to the same property
cd $WT || exit 9
git diff -- . > /tmp/seed_$ID$SFX.diff   # source change only (demo is untracked)
[ -s /tmp/seed_$ID$SFX.diff ] || cp patch.diff /tmp/seed_$ID$SFX.diff
echo "== demo WITH change"; timeout 120 go test -vet=off -count=1 -timeout 30s -run 'TestDemo|Demo' ./$PKG/ > /tmp/seed_with.log 2>&1; W=$?; tail -3 /tmp/seed_with.log
git stash -q
echo "== demo WITHOUT change"; timeout 120 go test -vet=off -count=1 -timeout 30s -run 'TestDemo|Demo' ./$PKG/ > /tmp/seed_without.log 2>&1; WO=$?; tail -2 /tmp/seed_without.log
echo "== existing suite WITH change (demo moved away)"
git stash pop -q
mkdir -p /tmp/seed_demo_$ID$SFX; find . -name zz_demo_test.go -exec mv {} /tmp/seed_demo_$ID$SFX/ \;
go build ./... && go test -vet=off -count=1 ./... > /tmp/seed_suite.log 2>&1; S=$?; grep -v "no test files" /tmp/seed_suite.log | grep -v "^ok" | head -5
cp /tmp/seed_demo_$ID$SFX/zz_demo_test.go $WT/$PKG/ 2>/dev/null
cp /tmp/seed_$ID$SFX.diff $OUT/patch.diff; cp /tmp/seed_demo_$ID$SFX/zz_demo_test.go $OUT/demo_test.go
echo "demo_with_exit=$W demo_without_exit=$WO suite_exit=$S"
cd /repo && git apply $OUT/patch.diff || { echo "PATCH DOES NOT APPLY"; exit 8; }
cd /verif && timeout 2400 ./bin/verif check $ID "$@" > /tmp/seed_check_$ID$SFX.log 2>&1; C=$?
git -C /repo checkout -- .
echo "check_exit=$C"; grep -c "^VIOLATION" /tmp/seed_check_$ID$SFX.log; grep "violation:" /tmp/seed_check_$ID$SFX.log | sed 's/| input.*| native/| native/' | cut -c1-260 | sort | uniq -c | head -5; tail -2 /tmp/seed_check_$ID$SFX.log | cut -c1-250
echo "{\"with\":$W,\"without\":$WO,\"suite\":$S,\"check_exit\":$C}" > $OUT/result.json
