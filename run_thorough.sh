#!/bin/bash
# runs the thorough tier of the given checks (default: all) on the current tree, one after the other
cd /verif
ids=${@:-C09 C17 C12 C03 C07 C06 C10 C04 C15 C19 C18 C20 C08 C13 C14 C11 C16 C02 C01}
for id in $ids; do
  s=$(date +%s)
  ./bin/verif check $id --tier thorough > /tmp/thor_$id.log 2>&1
  e=$?
  echo "$id exit=$e wall=$(( $(date +%s) - s ))s $(grep -c '^KNOWN-FINDING' /tmp/thor_$id.log) known"
done
